#!/bin/bash
# thorough-tier extension: coverage-guided fuzzing (cargo-fuzz / libFuzzer + ASan) of the engine that
# decides <prop>.  usage: tools/fuzz_stage.sh <prop> <seconds> <seed>
# exit 0 = nothing found, 1 = VIOLATION line printed, 2 = inconclusive (no target / build problem)
set -u
cd "$(dirname "$0")/.."
prop="$1"; secs="${2:-600}"; seed="${3:-1}"
case "$prop" in
  C02|C03|C04|C05|C06|C10|C14) target=seq_ops ;;
  C01|C08|C11) target=conc_sched ;;
  C19) target=serde_doc ;;
  *) exit 0 ;;
esac
export CARGO_NET_OFFLINE=true RUSTFLAGS="--cfg flurry_verif" FVH_FUZZ_PROP="$prop" FVH_FOUND_DIR="$(pwd)/replays/found"
mkdir -p "$FVH_FOUND_DIR" harness/fuzz/corpus/$target
cd harness
if ! cargo +nightly fuzz build $target >target/fuzz-build.log 2>&1; then
  echo "INCONCLUSIVE: fuzz target $target does not build (harness/target/fuzz-build.log)"; exit 2
fi
# a few random seeds so that libFuzzer does not have to grow inputs from nothing
python3 - "$target" "$seed" <<'PY'
import os, random, sys
t, seed = sys.argv[1], int(sys.argv[2])
d = "fuzz/corpus/%s" % t
r = random.Random(seed)
if len(os.listdir(d)) < 8:
    for i in range(24):
        if t == "serde_doc":
            keys = ["a", "b", "", "aa", "k"]
            body = ",".join('"%s":%d' % (r.choice(keys), r.randrange(50)) for _ in range(r.randrange(0, 8)))
            data = ("{%s}" % body).encode() if r.random() < 0.7 else ("[%s]" % ",".join('"%s"' % r.choice(keys) for _ in range(r.randrange(0, 8)))).encode()
        else:
            data = bytes(r.randrange(256) for _ in range(r.randrange(40, 400)))
        open("%s/seed-%d-%d" % (d, seed, i), "wb").write(data)
PY
before=$(ls "$FVH_FOUND_DIR" | wc -l)
log=target/fuzz-$target-$prop.log
cargo +nightly fuzz run $target fuzz/corpus/$target -- -max_total_time=$secs -seed=$seed -len_control=0 -max_len=600 -timeout=60 -rss_limit_mb=6000 >"$log" 2>&1
rc=$?
execs=$(grep -oE "^#[0-9]+" "$log" | tail -1 | tr -d '#')
cov=$(grep -oE "cov: [0-9]+" "$log" | tail -1)
echo "fuzz $target for $prop: ${execs:-0} executions in ${secs}s budget, ${cov:-cov: ?}, corpus $(ls fuzz/corpus/$target | wc -l) files, exit $rc"
python3 - "$prop" "$target" "${execs:-0}" "$secs" "$rc" <<'PY'
import json, sys
prop, target, execs, secs, rc = sys.argv[1], sys.argv[2], int(sys.argv[3] or 0), int(sys.argv[4]), int(sys.argv[5])
p = "../evidence/%s.json" % prop
try:
    e = json.load(open(p))
    e["coverage"]["fuzz"] = {"engine": "cargo-fuzz / libFuzzer with AddressSanitizer", "target": target, "executions": execs, "time_budget_s": secs, "exit": rc}
    e["coverage"]["evaluations"] += execs
    json.dump(e, open(p, "w"), indent=1)
except Exception as ex:
    print("could not update evidence:", ex)
PY
if [ $rc -ne 0 ]; then
  new=$(ls -t "$FVH_FOUND_DIR" | head -1)
  if grep -q "FUZZ-FAILURE" "$log" && [ -n "$new" ]; then
    grep "FUZZ-FAILURE" "$log" | tail -1
    echo "VIOLATION property=$prop replay=$FVH_FOUND_DIR/$new"
    exit 1
  fi
  art=$(ls -t fuzz/artifacts/$target 2>/dev/null | head -1)
  if [ -n "$art" ]; then
    cp "fuzz/artifacts/$target/$art" "$FVH_FOUND_DIR/fuzz-$target-$art"
    grep -E "ERROR: AddressSanitizer|SUMMARY|panicked" "$log" | head -3
    echo "VIOLATION property=$prop replay=$FVH_FOUND_DIR/fuzz-$target-$art"
    exit 1
  fi
  echo "INCONCLUSIVE: the fuzzer stopped with exit $rc without a reproducer (see harness/$log)"; exit 2
fi
exit 0
