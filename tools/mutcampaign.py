#!/usr/bin/env python3
"""Mutation-sensitivity campaign: applies hand-written small mutations of flurry (one at a time) to a
scratch worktree of /repo, rebuilds a scratch copy of the harness against it and runs the quick
check of the property the mutation is aimed at.  Nothing under /repo or /verif is modified.
usage: tools/mutcampaign.py [name-substring ...]   -> writes /tmp/mut/results.jsonl
"""
import json, os, shutil, subprocess, sys, time

MUT = "/tmp/mut"
REPO = MUT + "/repo"
VERIF = MUT + "/verif"

# (name, property, file, old, new)
M = [
 ("put_no_head_revalidation", "C01", "src/map.rs",
  """                    let current_head = t.bin(bini, guard);
                    if current_head != bin {
                        // nope -- try again from the start
                        continue;
                    }

                    // yes, it is still the head, so we can now "own" the bin
                    // note that there can still be readers in the bin!

                    // TODO: ReservationNode

                    bin_count = 1;
                    let mut p = bin;

                    old_val = loop {""",
  """                    let current_head = t.bin(bini, guard);
                    if false && current_head != bin {
                        // nope -- try again from the start
                        continue;
                    }

                    // yes, it is still the head, so we can now "own" the bin
                    // note that there can still be readers in the bin!

                    // TODO: ReservationNode

                    bin_count = 1;
                    let mut p = bin;

                    old_val = loop {"""),
 ("transfer_marker_before_bins", "C01", "src/map.rs",
  """                    next_table.store_bin(i, low_bin);
                    next_table.store_bin(i + n, high_bin);
                    table.store_bin(i, table.get_moved(next_table_ptr, guard));
                    #[cfg(flurry_verif)]
                    crate::verif::event(crate::verif::EV_BIN_MOVED, table as *const _ as usize, i);

                    // everything up to last_run""",
  """                    table.store_bin(i, table.get_moved(next_table_ptr, guard));
                    next_table.store_bin(i, low_bin);
                    next_table.store_bin(i + n, high_bin);
                    #[cfg(flurry_verif)]
                    crate::verif::event(crate::verif::EV_BIN_MOVED, table as *const _ as usize, i);

                    // everything up to last_run"""),
 ("remove_no_head_revalidation", "C01", "src/map.rs",
  """                    // need to check that this is _still_ the head
                    if t.bin(bini, guard) != bin {
                        continue;
                    }

                    let mut e = bin;""",
  """                    // need to check that this is _still_ the head
                    if false && t.bin(bini, guard) != bin {
                        continue;
                    }

                    let mut e = bin;"""),
 ("transfer_run_bit_flipped", "C02", "src/map.rs",
  """                    if run_bit == 0 {
                        // last run is all in the low bin
                        low_bin = last_run;
                    } else {""",
  """                    if run_bit != 0 {
                        // last run is all in the low bin
                        low_bin = last_run;
                    } else {"""),
 ("compute_remove_head_drops_rest", "C02", "src/map.rs",
  """                                    // or by setting the next node as the first BinEntry if there is no previous entry
                                    t.store_bin(bini, next);
                                }

                                // in either case, mark the BinEntry as garbage, since it was just removed
                                // safety: need to guarantee that the old value is no longer""",
  """                                    // or by setting the next node as the first BinEntry if there is no previous entry
                                    t.store_bin(bini, Shared::null());
                                }

                                // in either case, mark the BinEntry as garbage, since it was just removed
                                // safety: need to guarantee that the old value is no longer"""),
 ("insert_keeps_new_key_on_replace_in_tree", "C02", "src/node.rs",
  """                    if *p_key == key {
                        // a node with the given key already exists, so we return it
                        return p;
                    }""",
  """                    if *p_key == key && p_hash == hash {
                        // a node with the given key already exists, so we return it
                        return p;
                    }"""),
 ("replace_node_retire_before_unlink", "C03", "src/map.rs",
  """                                // remove the BinEntry containing the removed key value pair from the bucket
                                if !pred.is_null() {
                                    // either by changing the pointer of the previous BinEntry, if present
                                    // safety: as above
                                    unsafe { pred.deref() }
                                        .as_node()
                                        .unwrap()
                                        .next
                                        .store(next, Ordering::SeqCst);
                                } else {
                                    // or by setting the next node as the first BinEntry if there is no previous entry
                                    t.store_bin(bini, next);
                                }

                                // in either case, mark the BinEntry as garbage, since it was just removed
                                // safety: as for val below / in put
                                unsafe { guard.retire_shared(e) };""",
  """                                // in either case, mark the BinEntry as garbage, since it was just removed
                                // safety: as for val below / in put
                                unsafe { guard.retire_shared(e) };
                                // remove the BinEntry containing the removed key value pair from the bucket
                                if !pred.is_null() {
                                    // either by changing the pointer of the previous BinEntry, if present
                                    // safety: as above
                                    unsafe { pred.deref() }
                                        .as_node()
                                        .unwrap()
                                        .next
                                        .store(next, Ordering::SeqCst);
                                } else {
                                    // or by setting the next node as the first BinEntry if there is no previous entry
                                    t.store_bin(bini, next);
                                }
"""),
 ("treeify_retires_values_too", "C03", "src/map.rs",
  """                        unsafe {
                            guard.retire_shared(e);
                            e = e
                                .deref()""",
  """                        unsafe {
                            guard.retire_shared(e.deref().as_node().unwrap().value.load(Ordering::SeqCst, guard));
                            guard.retire_shared(e);
                            e = e
                                .deref()"""),
 ("transfer_leaks_cloned_nodes", "C04", "src/map.rs",
  """                            .next
                            .load(Ordering::SeqCst, guard);
                        unsafe { guard.retire_shared(p) };
                        p = next;""",
  """                            .next
                            .load(Ordering::SeqCst, guard);
                        p = next;"""),
 ("tree_drop_without_values_drops_values", "C04", "src/node.rs",
  """            tree_bin.drop_fields(false);
        });""",
  """            tree_bin.drop_fields(true);
        });"""),
 ("put_replace_forgets_to_retire_old_value", "C04", "src/map.rs",
  """                                let now_garbage = n.value.swap(value, Ordering::SeqCst, guard);
                                // NOTE: now_garbage == current_value

                                // safety: need to guarantee that now_garbage is no longer
                                // reachable. more specifically, no thread that executes _after_
                                // this line can ever get a reference to now_garbage.
                                //
                                // here are the possible cases:
                                //
                                //  - another thread already has a reference to now_garbage.
                                //    they must have read it before the call to swap while
                                //    marked as active (holding a guard), and are included in
                                //    the reference count. therefore t won't be freed until _after_
                                //    it decrements the reference count, which can only happen
                                //    when that thread drops its guard, and with it, any reference
                                //    to the value.
                                //  - another thread is about to get a reference to this value.
                                //    they execute _after_ the swap, and therefore do _not_ get a
                                //    reference to now_garbage (they get `value` instead). there are
                                //    no other ways to get to a value except through its Node's
                                //    `value` field (which is what we swapped), so freeing
                                //    now_garbage is fine.
                                unsafe { guard.retire_shared(now_garbage) };
                            }
                            break Some(current_value);""",
  """                                let _now_garbage = n.value.swap(value, Ordering::SeqCst, guard);
                            }
                            break Some(current_value);"""),
 ("clear_forgets_count", "C05", "src/map.rs",
  """        if delta != 0 {
            self.add_count(delta, None, guard);
        }""",
  """        if delta != 0 && false {
            self.add_count(delta, None, guard);
        }"""),
 ("remove_forgets_count_in_tree", "C05", "src/map.rs",
  """            if let Some((key, val)) = old_val {
                if is_remove {
                    self.add_count(-1, None, guard);
                }""",
  """            if let Some((key, val)) = old_val {
                if is_remove && observed_value.is_none() {
                    self.add_count(-1, None, guard);
                }"""),
 ("tree_insert_skips_balancing", "C06", "src/node.rs",
  """                    self.lock_root(guard, collector);
                    self.root.store(
                        TreeNode::balance_insertion(
                            self.root.load(Ordering::Relaxed, guard),
                            x,
                            guard,
                        ),
                        Ordering::Relaxed,
                    );
                    self.unlock_root();""",
  """                    self.lock_root(guard, collector);
                    self.unlock_root();"""),
 ("tree_remove_forgets_prev_fixup", "C06", "src/node.rs",
  """        if !next.is_null() {
            TreeNode::get_tree_node(next)
                .prev
                .store(prev, Ordering::SeqCst);
        }""",
  """        if !next.is_null() && !prev.is_null() {
            TreeNode::get_tree_node(next)
                .prev
                .store(prev, Ordering::SeqCst);
        }"""),
 ("never_treeify", "C06", "src/map.rs",
  """            if bin_count >= TREEIFY_THRESHOLD {
                self.treeify_bin(t, bini, guard);
            }""",
  """            if bin_count >= TREEIFY_THRESHOLD && t.len() < MIN_TREEIFY_CAPACITY {
                self.treeify_bin(t, bini, guard);
            }"""),
 ("iter_recover_state_le", "C07", "src/iter/traverser.rs",
  """            if self.index + s.length < n {""",
  """            if self.index + s.length <= n {"""),
 ("iter_push_wrong_index", "C07", "src/iter/traverser.rs",
  """                        self.push_state(t, i, n);""",
  """                        self.push_state(t, i + 1, n);"""),
 ("iter_skips_high_half", "C07", "src/iter/traverser.rs",
  """                self.index += s.length;
                break;""",
  """                self.index += s.length << 1;
                break;"""),
 ("compute_tree_reads_value_before_lock_revalidation", "C08", "src/map.rs",
  """                            let n = &unsafe { TreeNode::get_tree_node(p) }.node;
                            let current_value = n.value.load(Ordering::SeqCst, guard);

                            // safety: since the value is present now, and we've held a guard from
                            // the beginning of the search, the value cannot be dropped until after
                            // we drop our guard.
                            let new_value =
                                remapping_function(&n.key, unsafe { current_value.deref() });

                            if let Some(value) = new_value {
                                let value = Shared::boxed(value, &self.collector);
                                let now_garbage = n.value.swap(value, Ordering::SeqCst, guard);""",
  """                            let n = &unsafe { TreeNode::get_tree_node(p) }.node;
                            let current_value = n.value.load(Ordering::SeqCst, guard);

                            // safety: since the value is present now, and we've held a guard from
                            // the beginning of the search, the value cannot be dropped until after
                            // we drop our guard.
                            drop(bin_lock);
                            let new_value =
                                remapping_function(&n.key, unsafe { current_value.deref() });
                            let bin_lock = tree_bin.lock.lock();

                            if let Some(value) = new_value {
                                let value = Shared::boxed(value, &self.collector);
                                let now_garbage = n.value.swap(value, Ordering::SeqCst, guard);"""),
 ("compute_list_unlocks_around_closure", "C08", "src/map.rs",
  """                            let new_value =
                                remapping_function(&n.key, unsafe { current_value.deref() });

                            if let Some(value) = new_value {
                                let value = Shared::boxed(value, &self.collector);
                                let now_garbage = n.value.swap(value, Ordering::SeqCst, guard);
                                // NOTE: now_garbage == current_value

                                // safety: need to guarantee that now_garbage is no longer
                                // reachable. more specifically, no thread that executes _after_
                                // this line can ever get a reference to now_garbage.
                                //
                                // here are the possible cases:
                                //
                                //  - another thread already has a reference to now_garbage.
                                //    they must have read it before the call to swap while
                                //    marked as active (holding a guard), and are included in
                                //    the reference count. therefore t won't be freed until _after_
                                //    it decrements the reference count, which can only happen
                                //    when that thread drops its guard, and with it, any reference
                                //    to the value.
                                //  - another thread is about to get a reference to this value.
                                //    they execute _after_ the swap, and therefore do _not_ get a
                                //    reference to now_garbage (they get `value` instead). there are
                                //    no other ways to get to a value except through its Node's
                                //    `value` field (which is what we swapped), so freeing
                                //    now_garbage is fine.
                                unsafe { guard.retire_shared(now_garbage) };

                                // safety: since the value is present now, and we've held a guard from
                                // the beginning of the search, the value cannot be dropped until after
                                // we drop our guard.
                                break Some(unsafe { value.deref() });""",
  """                            drop(head_lock);
                            let new_value =
                                remapping_function(&n.key, unsafe { current_value.deref() });
                            let head_lock = head.lock.lock();

                            if let Some(value) = new_value {
                                let value = Shared::boxed(value, &self.collector);
                                let now_garbage = n.value.swap(value, Ordering::SeqCst, guard);
                                unsafe { guard.retire_shared(now_garbage) };
                                drop(head_lock);
                                return Some(unsafe { &**value.deref() });"""),
 ("transfer_finisher_test_inverted", "C10", "src/map.rs",
  """                    if (sc - 2) != Self::resize_stamp(n) << RESIZE_STAMP_SHIFT {
                        return;
                    }""",
  """                    if (sc - 2) == Self::resize_stamp(n) << RESIZE_STAMP_SHIFT {
                        return;
                    }"""),
 ("transfer_next_threshold_wrong", "C10", "src/map.rs",
  """                    self.size_ctl
                        .store(((n as isize) << 1) - ((n as isize) >> 1), Ordering::SeqCst);""",
  """                    self.size_ctl
                        .store(((n as isize) << 1) - ((n as isize) >> 2), Ordering::SeqCst);"""),
 ("transfer_claims_stride_without_cas", "C10", "src/map.rs",
  """                if self
                    .transfer_index
                    .compare_exchange(next_index, next_bound, Ordering::SeqCst, Ordering::Relaxed)
                    .is_ok()
                {
                    bound = next_bound;""",
  """                if {
                    self.transfer_index.store(next_bound, Ordering::SeqCst);
                    true
                } {
                    bound = next_bound;"""),
 ("helper_joins_finished_resize", "C10", "src/map.rs",
  """            if sc >= 0
                || sc == rs + MAX_RESIZERS
                || sc == rs + 1
                || self.transfer_index.load(Ordering::SeqCst) <= 0
            {
                break;
            }""",
  """            if sc >= 0 || sc == rs + MAX_RESIZERS {
                break;
            }"""),
 ("tree_reader_forgets_unpark", "C11", "src/node.rs",
  """                if bin_deref.lock_state.fetch_add(-READER, Ordering::SeqCst) == (READER | WAITER) {""",
  """                if bin_deref.lock_state.fetch_add(-READER, Ordering::SeqCst) == READER {"""),
 ("init_table_loser_never_released", "C11", "src/map.rs",
  """                    table = Shared::boxed(Table::new(n, &self.collector), &self.collector);
                    self.table.store(table, Ordering::SeqCst);
                    sc = load_factor!(n as isize)
                }
                self.size_ctl.store(sc, Ordering::SeqCst);""",
  """                    table = Shared::boxed(Table::new(n, &self.collector), &self.collector);
                    self.table.store(table, Ordering::SeqCst);
                    sc = load_factor!(n as isize);
                    self.size_ctl.store(sc, Ordering::SeqCst);
                }"""),
 ("tree_reader_waits_for_writer", "C12", "src/node.rs",
  """                let element_deref = unsafe { TreeNode::get_tree_node(element) };
                let element_key = &element_deref.node.key;
                if element_deref.node.hash == hash && element_key.borrow() == key {
                    return element;
                }
                element = element_deref.node.next.load(Ordering::SeqCst, guard);""",
  """                if s & WRITER != 0 {
                    std::hint::spin_loop();
                    continue;
                }
                let element_deref = unsafe { TreeNode::get_tree_node(element) };
                let element_key = &element_deref.node.key;
                if element_deref.node.hash == hash && element_key.borrow() == key {
                    return element;
                }
                element = element_deref.node.next.load(Ordering::SeqCst, guard);"""),
 ("retain_ignores_observed_value", "C13", "src/map.rs",
  """                self.replace_node(k, None, Some(v), guard);""",
  """                self.replace_node(k, None, None, guard);"""),
 ("retain_force_uses_observed_value", "C13", "src/map.rs",
  """        for (k, v) in self.iter(guard) {
            if !f(k, v) {
                self.replace_node(k, None, None, guard);
            }
        }""",
  """        let mut iter = self.iter(guard);
        while let Some((k, v)) = iter.next_internal() {
            if !f(k, unsafe { v.deref() }) {
                self.replace_node(k, None, Some(v), guard);
            }
        }"""),
 ("presize_rounds_too_small", "C14", "src/map.rs",
  """            // round the requested_capacity to the next power of to from 1.5 * size + 1
            // TODO: find out if this is neccessary
            let size = size + (size >> 1) + 1;

            std::cmp::min(MAXIMUM_CAPACITY, size.next_power_of_two())
        } as usize;""",
  """            // round the requested_capacity to the next power of to from 1.5 * size + 1
            // TODO: find out if this is neccessary
            let size = size + (size >> 2) + 1;

            std::cmp::min(MAXIMUM_CAPACITY, size.next_power_of_two())
        } as usize;"""),
 ("remove_with_resize_hint", "C14", "src/map.rs",
  """                if is_remove {
                    self.add_count(-1, None, guard);
                }""",
  """                if is_remove {
                    self.add_count(-1, Some(0), guard);
                    self.add_count(1, Some(0), guard);
                    self.add_count(-1, None, guard);
                }"""),
 ("store_bin_relaxed", "C15", "src/raw/mod.rs",
  """        self.bins[i].store(new, Ordering::Release)""",
  """        self.bins[i].store(new, Ordering::Relaxed)"""),
 ("cas_bin_relaxed", "C15", "src/raw/mod.rs",
  """        self.bins[i].compare_exchange(current, new, Ordering::AcqRel, Ordering::Acquire, guard)""",
  """        self.bins[i].compare_exchange(current, new, Ordering::Relaxed, Ordering::Relaxed, guard)"""),
 ("put_link_relaxed", "C15", "src/map.rs",
  """                            n.next.store(node, Ordering::SeqCst);
                            break None;""",
  """                            n.next.store(node, Ordering::Relaxed);
                            break None;"""),
 ("value_swap_relaxed", "C15", "src/map.rs",
  """                                // update the value in the existing node
                                let now_garbage = n.value.swap(value, Ordering::SeqCst, guard);""",
  """                                // update the value in the existing node
                                let now_garbage = n.value.swap(value, Ordering::Relaxed, guard);"""),
 ("unlock_root_relaxed", "C15", "src/node.rs",
  """        self.lock_state.store(0, Ordering::Release);""",
  """        self.lock_state.store(0, Ordering::Relaxed);"""),
 ("compute_removes_before_closure_result", "C18", "src/map.rs",
  """                            let new_value =
                                remapping_function(&n.key, unsafe { current_value.deref() });

                            if let Some(value) = new_value {
                                let value = Shared::boxed(value, &self.collector);
                                let now_garbage = n.value.swap(value, Ordering::SeqCst, guard);
                                // NOTE: now_garbage == current_value

                                // safety: need to guarantee that now_garbage is no longer
                                // reachable. more specifically, no thread that executes _after_
                                // this line can ever get a reference to now_garbage.
                                //
                                // here are the possible cases:
                                //
                                //  - another thread already has a reference to now_garbage.
                                //    they must have read it before the call to swap while
                                //    marked as active (holding a guard), and are included in
                                //    the reference count. therefore t won't be freed until _after_
                                //    it decrements the reference count, which can only happen
                                //    when that thread drops its guard, and with it, any reference
                                //    to the value.
                                //  - another thread is about to get a reference to this value.
                                //    they execute _after_ the swap, and therefore do _not_ get a
                                //    reference to now_garbage (they get `value` instead). there are
                                //    no other ways to get to a value except through its Node's
                                //    `value` field (which is what we swapped), so freeing
                                //    now_garbage is fine.
                                unsafe { guard.retire_shared(now_garbage) };

                                // safety: since the value is present now, and we've held a guard from
                                // the beginning of the search, the value cannot be dropped until after
                                // we drop our guard.
                                break Some(unsafe { value.deref() });""",
  """                            let _forget_on_panic = std::mem::ManuallyDrop::new(head.lock.try_lock());
                            let new_value =
                                remapping_function(&n.key, unsafe { current_value.deref() });

                            if let Some(value) = new_value {
                                let value = Shared::boxed(value, &self.collector);
                                let now_garbage = n.value.swap(value, Ordering::SeqCst, guard);
                                unsafe { guard.retire_shared(now_garbage) };
                                break Some(unsafe { value.deref() });"""),
 ("par_extend_drops_items", "C19", "src/rayon_impls.rs", None, None),
]

def sh(cmd, cwd=None, timeout=None, env=None):
    e = dict(os.environ)
    if env: e.update(env)
    return subprocess.run(cmd, shell=True, cwd=cwd, capture_output=True, text=True, timeout=timeout, env=e)

def setup():
    os.makedirs(MUT, exist_ok=True)
    if not os.path.isdir(REPO):
        r = sh("git -C /repo worktree add --detach %s HEAD" % REPO)
        assert r.returncode == 0, r.stderr
    else:
        sh("git checkout -- . && git checkout --detach $(git -C /repo rev-parse HEAD)", cwd=REPO)
    os.makedirs(VERIF, exist_ok=True)
    sh("rsync -a --delete --exclude target /verif/harness/ %s/harness/" % VERIF)
    sh("rsync -a --delete --exclude found /verif/replays/ %s/replays/" % VERIF)
    sh("sed -i 's#path = \"/repo\"#path = \"%s\"#' %s/harness/Cargo.toml" % (REPO, VERIF))

def main():
    only = sys.argv[1:]
    setup()
    out = open(MUT + "/results.jsonl", "a")
    for (name, prop, f, old, new) in M:
        if old is None or (only and not any(o in name or o == prop for o in only)):
            continue
        sh("git checkout -- .", cwd=REPO)
        p = os.path.join(REPO, f)
        s = open(p).read()
        if s.count(old) != 1:
            rec = {"name": name, "prop": prop, "result": "PATTERN_NOT_FOUND(%d)" % s.count(old)}
            print(json.dumps(rec)); out.write(json.dumps(rec) + "\n"); out.flush(); continue
        open(p, "w").write(s.replace(old, new))
        b0 = sh("cargo build --offline --features serde,rayon", cwd=REPO)
        t0 = time.time()
        b = sh("cargo build --release", cwd=VERIF + "/harness", env={"CARGO_NET_OFFLINE": "true"})
        if b.returncode != 0 or b0.returncode != 0:
            rec = {"name": name, "prop": prop, "result": "BUILD_FAILED", "err": (b0.stderr + b.stderr)[-600:]}
            print(json.dumps(rec)); out.write(json.dumps(rec) + "\n"); out.flush(); continue
        try:
            r = sh("%s/harness/target/release/fvh run %s --tier quick --seed 1" % (VERIF, prop), cwd=VERIF, timeout=1500, env={"VERIF_DIR": VERIF})
            rc = r.returncode
            lines = [l for l in r.stdout.splitlines() if not l.startswith("  class")]
            msg = next((l for l in lines if l.strip().startswith("[") or "died" in l), "")
        except subprocess.TimeoutExpired:
            rc, msg = "timeout", ""
        rec = {"name": name, "prop": prop, "rc": rc, "result": "CAUGHT" if rc == 1 else ("MISSED" if rc == 0 else "INCONCLUSIVE"), "secs": round(time.time() - t0, 1), "msg": msg.strip()[:300]}
        print(json.dumps(rec)); out.write(json.dumps(rec) + "\n"); out.flush()
        shutil.rmtree(VERIF + "/replays/found", ignore_errors=True)
    sh("git checkout -- .", cwd=REPO)

if __name__ == "__main__":
    main()
