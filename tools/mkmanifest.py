#!/usr/bin/env python3
"""Regenerates /verif/MANIFEST.json from the table below (kept in one place so that the
manifest is valid at every commit)."""
import json, os, subprocess
HERE = os.path.dirname(os.path.dirname(os.path.abspath(__file__)))

def repo_commits():
    out = subprocess.run(["git", "-C", "/repo", "log", "--format=%H %s"], capture_output=True, text=True).stdout
    return [l.split()[0] for l in out.splitlines() if l.split(" ", 1)[1].startswith("verif hooks")]

# id -> (engine, level category, level text, level note, technique, design ref)
CHECKS = {
 "C01": ("E2+E3", "exploration",
   "Bounded systematic schedule exploration: generated small concurrent programs run on real threads under a serialising scheduler that owns every interleaving decision (all 0/1-preemption schedules, budgeted coarse and fine 2-preemption schedules, random sparse tapes); the recorded history is decided by a per-key Wing-Gong linearizability search. Held on everything explored; deep interleavings are sampled.",
   "Trusted: interleavings at the granularity of flurry's instrumented atomics/locks (seize and parking_lot run atomically between them); sequentially consistent executions only; programs of 2-3 threads x 1-3 ops plus long families (4-8 threads x 6-12 ops, random tapes) and concurrent HashSet programs through all four facades.",
   "controlled-schedule concurrency testing (CHESS-style bounded preemption + proptest programs) with a linearizability oracle", "DESIGN.md §4 C01"),
 "C02": ("E1", "exploration",
   "Model-based property testing: generated operation sequences over every public operation, all hashers/capacities/facades, compared step by step with a BTreeMap model; held on everything generated, no exhaustiveness claimed.",
   "Trusted: the reference model and the op interpreter; flurry built with debug assertions; sequences <= 200 ops, universes <= 200 keys.",
   "stateful model-based property testing (proptest) against a BTreeMap reference", "DESIGN.md §4 C02"),
 "C03": ("E1+E2+E4", "exploration",
   "Generated bulk constructions, sequential histories and scheduled concurrent programs with three memory oracles: canaries re-read before each guard is released, a poisoning quarantine allocator that reports writes to freed blocks, and 'retired implies unreachable' evaluated at every retirement; plus isolated readers at every writer step.",
   "A read of freed memory is caught through poison (dead canary, wild pointer, garbage discriminant), not with certainty; ASan fuzz targets in the thorough tier close part of that gap. Trusted base as C01.",
   "property-based testing with memory-safety oracles (canary, quarantine allocator, reachability at retire) under generated inputs and controlled schedules", "DESIGN.md §4 C03"),
 "C04": ("E1+E2", "exploration",
   "Drop ledger over every key/value instance ever created (incl. clones made by the map) across generated sequential histories and scheduled concurrent executions of every program family: exactly one drop each by map teardown, none while stored, none while a guard that predates the displacement is alive.",
   "Only K/V instances are ledgered; guards created inside pin() are not visible to the live-observer rule (fewer guards judged, never more).",
   "model-based property testing with an exactly-once drop ledger", "DESIGN.md §4 C04"),
 "C05": ("E1+E2+inspector", "exploration",
   "Every quiescent point of generated sequential histories and the join point of explored concurrent executions (every program family) is checked: iteration = lookups = len, and the inspector's structural well-formedness predicate.",
   "The inspector reads raw pointers while nothing is in flight. Trusted base as C01 for the concurrent part.",
   "invariant checking at quiescent points of generated histories (proptest + controlled schedules)", "DESIGN.md §4 C05"),
 "C06": ("E1+E2+inspector", "exploration",
   "Collision-only generators with adversarial insertion/removal orders; after every step red-black/list consistency of every tree bin and a comparison-count bound for lookups measured by the key type; the same oracles after every explored schedule of concurrent programs that contend for, migrate or convert a tree bin (incl. 1-129 readers registered in one bin).",
   "Comparison counts are those of the instrumented key type; bound ceil(4*log2(n+1))+2.",
   "property-based testing with structural invariants and a counted-comparisons oracle", "DESIGN.md §4 C06"),
 "C07": ("E1+E2+probes", "exploration",
   "Weak-consistency predicate over (a) single-threaded scripts interleaving next() with whole resizes, (b) iterating threads among writers under the scheduler, (c) a complete isolated iteration at every writer yield point; search includes a 'drain' program family and coarse two-preemption enumeration (finds the repaired null-first defect by search); (d) probes during multi-helper resizes and tree-bin migrations; (e) concurrent HashSet programs that iterate and serialise the set.",
   "Presence intervals are judged permissively from unique value ids and operation intervals. Trusted base as C01.",
   "controlled-schedule testing with isolated-reader probes and an interval-based weak-consistency oracle", "DESIGN.md §4 C07"),
 "C08": ("E2+E3", "exploration",
   "As C01 with compute-heavy programs: closure call count, read-modify-write linearizability against the value the closure saw, and a counter-sum oracle.",
   "As C01.",
   "controlled-schedule testing with an RMW linearizability oracle", "DESIGN.md §4 C08"),
 "C09": ("E1+event hook", "exploration",
   "Enumeration of the registry of guard-taking entry points x map states x key arguments; the event hook must never see the foreign collector at a guarded load or retirement; a panicking call must leave the map unchanged and usable.",
   "The registry is maintained by hand; a source scan reports unregistered guard-taking public functions in the evidence notes.",
   "enumerative testing over an entry-point registry with a hook-based oracle", "DESIGN.md §4 C09"),
 "C10": ("E2+site events", "exploration",
   "Scheduled multi-thread resizes judged from the site-event stream (each bin once, one publication, no overlap, exact doubling), post-state checks incl. a further growth, sequential growth oracle, exhaustive resize-stamp arithmetic for the 31 table lengths.",
   "As C01; tables up to 4096 bins concurrently.",
   "controlled-schedule testing with an event-stream invariant; exhaustive arithmetic table", "DESIGN.md §4 C10"),
 "C11": ("E2", "exploration",
   "Exact deadlock / lost-wake-up detection (nobody enabled while somebody unfinished) and a per-operation step budget over all explored schedules of nine program families (incl. multi-helper resizes and tree bins migrating to either half).",
   "Bounded liveness on small programs: not a statement about all fair schedules. As C01.",
   "controlled-schedule testing with exact deadlock detection", "DESIGN.md §4 C11"),
 "C12": ("E2+probes", "fault_enumeration",
   "At every yield point of every writer (exhaustive within each executed schedule) all threads are frozen and every read operation runs alone: it must finish within a step bound, never reach the before-lock / park / spin hook, and return something the pending writes allow.",
   "The step bound 20000 separates legitimate reads from a reader that waits. As C01.",
   "suspension-point enumeration with isolated reader probes", "DESIGN.md §4 C12"),
 "C13": ("E2+E3", "exploration",
   "retain / retain_force racing writers, single and consecutive resizes, the first operations on an unallocated map and long random-tape histories; rejected pairs become conditional / forced removals inside the linearizability search; sequential agreement with BTreeMap::retain.",
   "As C01; predicates are pure.",
   "controlled-schedule testing with a linearizability oracle extended by conditional removals", "DESIGN.md §4 C13"),
 "C14": ("E1+E2+inspector", "exploration",
   "Exhaustive capacity/reserve sweep over an enumerable range plus generated sequences with a table-length policy predicate after every operation; after every explored schedule of concurrent programs (first operations racing on an unallocated map, resizes with one and several helpers) the idle threshold and the growth rule are re-checked by inserting fresh keys from the main thread.",
   "Capacities above 2^21 not exercised.",
   "enumeration + property-based testing with a table-length policy oracle", "DESIGN.md §4 C14"),
 "C15": ("E2+E5", "exploration",
   "Vector-clock happens-before audit of every key/value hand-over that occurs in the explored executions, from the orderings the code passes to its atomics (a failed compare-exchange counts with its failure ordering) and its bin locks.",
   "Sequentially consistent executions only: audits synchronisation on executed reads-from pairs, does not generate weak-memory behaviours; seize fences not modelled.",
   "controlled-schedule testing with a vector-clock happens-before monitor", "DESIGN.md §4 C15"),
 "C16": ("E6", "exploration",
   "Programs generated from the registry of borrow-returning entry points x misuse kinds, compiled with cargo check; negatives must fail with a borrow/lifetime code on their line, positive twins must compile.",
   "rustc's borrow checker is the oracle; registry maintained by hand.",
   "generated negative/positive compile tests (differential on rustc diagnostics)", "DESIGN.md §4 C16"),
 "C17": ("E6", "exploration",
   "Programs generated from the registry of inserting entry points x three non-thread-safe type shapes x key/value position; negatives must be rejected naming Send/Sync; positives (thread-safe twins, and lookups / iteration / equality / set relations through every facade on non-thread-safe types) must compile.",
   "rustc's trait solver is the oracle; registry maintained by hand.",
   "generated negative/positive compile tests (differential on rustc diagnostics)", "DESIGN.md §4 C17"),
 "C18": ("E1", "fault_enumeration",
   "Panic injected at every callback index of compute_if_present / retain / retain_force / iterator loops over generated prefixes; aftermath checked with model, inspector (no lock held) and cross-thread writes.",
   "The faulting operation is deterministic given the prefix.",
   "fault injection at every callback index over generated histories", "DESIGN.md §4 C18"),
 "C19": ("E7+E2", "exploration",
   "Grammar-generated JSON documents (repetitions, ill-typed, damaged) deserializers reporting generated and wild size hints, item multisets on 1-8 thread pools and long duplicate-heavy parallel inputs with forced job lengths; no panic, round trip equality, sequential key set; a map serialised while scheduled threads update it must give a well-formed, weakly consistent document (JSON and a length-trusting format).",
   "serde_json plus a minimal length-trusting serde format written for the check; rayon scheduling sampled, not controlled.",
   "grammar-based property testing with round-trip and differential oracles", "DESIGN.md §4 C19"),
}
PLANNED = {}
ALL = ["C%02d" % i for i in range(1, 20)]

def main():
    checks = []
    for pid in ALL:
        if pid not in CHECKS:
            continue
        eng, cat, text, note, tech, ref = CHECKS[pid]
        checks.append({
            "property_id": pid,
            "quick_cmd": "./check %s quick" % pid,
            "thorough_cmd": "./check %s thorough" % pid,
            "evidence_file": "/verif/evidence/%s.json" % pid,
            "replay_cmd_template": "./check %s --replay {path}" % pid,
            "engine": eng,
            "level_claimed": {"category": cat, "text": text, "design_ref": ref},
            "level_note": note,
            "technique": tech,
        })
    na = [{"property_id": p, "reason": PLANNED.get(p, "check not built yet in this revision of /verif (see DESIGN.md §8 build-out order); nothing is claimed for it")} for p in ALL if p not in CHECKS]
    m = {
        "version": 1,
        "setup_cmd": "cd /verif/harness && CARGO_NET_OFFLINE=true cargo build --release && CARGO_NET_OFFLINE=true cargo build --profile nodebug",
        "hooks": {
            "guard": "flurry_verif",
            "enable": "RUSTFLAGS=\"--cfg flurry_verif\" (set in /verif/harness/.cargo/config.toml; flurry is a path dependency on /repo)",
            "baseline_off_cmd": "cd /repo && cargo nextest run --workspace --no-fail-fast --tool-config-file pb:/w/lib/nextest.toml --profile pb --test-threads 8 --offline || cargo test --workspace --no-fail-fast --offline",
            "source_commits": repo_commits(),
            "add_only": True,
        },
        "engines": [
            {"name": "E1", "path": "harness/src/seq.rs", "serves_properties": ["C02", "C03", "C04", "C05", "C06", "C10", "C13", "C14", "C18"], "kind_free_text": "sequential model-based engine (proptest strategies, BTreeMap reference, inspector oracles, drop ledger, canaries, fault injection)"},
            {"name": "E2", "path": "harness/src/sched.rs", "serves_properties": ["C01", "C03", "C04", "C05", "C06", "C07", "C08", "C10", "C11", "C12", "C13", "C14", "C15", "C18", "C19"], "kind_free_text": "serialising scheduler over flurry's cfg-gated hooks: real threads, one token, bounded-preemption enumeration, random tapes, isolated-reader probes"},
            {"name": "E3", "path": "harness/src/lin.rs", "serves_properties": ["C01", "C08", "C13"], "kind_free_text": "per-key Wing-Gong linearizability checker"},
            {"name": "E4", "path": "harness/src/alloc.rs", "serves_properties": ["C03"], "kind_free_text": "quarantine/poison global allocator + canaries + retire-time reachability"},
            {"name": "E5", "path": "harness/src/hb.rs", "serves_properties": ["C15"], "kind_free_text": "vector-clock happens-before monitor over the hook stream"},
            {"name": "E6", "path": "harness/src/checks/typecheck.rs", "serves_properties": ["C16", "C17"], "kind_free_text": "program generator + cargo check diagnostics"},
            {"name": "E7", "path": "harness/src/checks/bulk.rs", "serves_properties": ["C19"], "kind_free_text": "serde/rayon generators"},
        ],
        "checks": checks,
        "not_applicable": na,
        "notes": "All checks: ./check <id> quick|thorough rebuilds /verif/harness against /repo's working tree with --cfg flurry_verif; exit 0 held / 1 VIOLATION / 2 inconclusive. Known findings: /verif/KNOWN_FINDINGS.txt.",
    }
    with open(os.path.join(HERE, "MANIFEST.json"), "w") as f:
        json.dump(m, f, indent=1)
        f.write("\n")

if __name__ == "__main__":
    main()
