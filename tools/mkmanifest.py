#!/usr/bin/env python3
"""Regenerates /verif/MANIFEST.json from the table below (kept in one place so that the
manifest is valid at every commit)."""
import json, os, subprocess
HERE = os.path.dirname(os.path.dirname(os.path.abspath(__file__)))

def repo_commits():
    out = subprocess.run(["git", "-C", "/repo", "log", "--format=%H %s"], capture_output=True, text=True).stdout
    return [l.split()[0] for l in out.splitlines() if l.split(" ", 1)[1].startswith("verif hooks")]

# id -> (engine, level category, level text, level note, technique, design ref)
CHECKS = {
 "C02": ("E1-seq", "exploration",
   "Model-based property testing: generated operation sequences over every public operation, all hashers/capacities/facades, compared step by step with a BTreeMap model; held on everything generated, no exhaustiveness claimed.",
   "Trusted: the reference model and the op interpreter; flurry built with debug assertions; sequences <= 200 ops, universes <= 200 keys.",
   "stateful model-based property testing (proptest) against a BTreeMap reference", "DESIGN.md §4 C02"),
}
PLANNED = {}
ALL = ["C%02d" % i for i in range(1, 20)]

def main():
    checks = []
    for pid in ALL:
        if pid not in CHECKS:
            continue
        eng, cat, text, note, tech, ref = CHECKS[pid]
        checks.append({
            "property_id": pid,
            "quick_cmd": "./check %s quick" % pid,
            "thorough_cmd": "./check %s thorough" % pid,
            "evidence_file": "/verif/evidence/%s.json" % pid,
            "replay_cmd_template": "./check %s --replay {path}" % pid,
            "engine": eng,
            "level_claimed": {"category": cat, "text": text, "design_ref": ref},
            "level_note": note,
            "technique": tech,
        })
    na = [{"property_id": p, "reason": PLANNED.get(p, "check not built yet in this revision of /verif (see DESIGN.md §8 build-out order); nothing is claimed for it")} for p in ALL if p not in CHECKS]
    m = {
        "version": 1,
        "setup_cmd": "cd /verif/harness && CARGO_NET_OFFLINE=true cargo build --release",
        "hooks": {
            "guard": "flurry_verif",
            "enable": "RUSTFLAGS=\"--cfg flurry_verif\" (set in /verif/harness/.cargo/config.toml; flurry is a path dependency on /repo)",
            "baseline_off_cmd": "cd /repo && cargo nextest run --workspace --no-fail-fast --tool-config-file pb:/w/lib/nextest.toml --profile pb --test-threads 8 --offline || cargo test --workspace --no-fail-fast --offline",
            "source_commits": repo_commits(),
            "add_only": True,
        },
        "engines": [
            {"name": "E1-seq", "path": "harness/src/seq.rs", "serves_properties": ["C02"], "kind_free_text": "sequential model-based engine (proptest strategies, BTreeMap reference, inspector oracles)"},
        ],
        "checks": checks,
        "not_applicable": na,
        "notes": "All checks: ./check <id> quick|thorough rebuilds /verif/harness against /repo's working tree with --cfg flurry_verif; exit 0 held / 1 VIOLATION / 2 inconclusive. Known findings: /verif/KNOWN_FINDINGS.txt.",
    }
    with open(os.path.join(HERE, "MANIFEST.json"), "w") as f:
        json.dump(m, f, indent=1)
        f.write("\n")

if __name__ == "__main__":
    main()
