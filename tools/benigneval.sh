#!/bin/bash
# usage: tools/benigneval.sh <benign-patch-name> [props...]
# Runs quick checks against a behaviour-preserving change (benign/<name>.diff) in the scratch copy;
# every check must stay silent (rc=0): anything else is a false alarm of the machinery.
cd "$(dirname "$0")/.."
n="$1"; shift
props="$*"; [ -z "$props" ] && props="C01 C02 C03 C04 C05 C06 C07 C08 C09 C10 C11 C12 C13 C14 C15 C18 C19"
SEED_PATCH="$(pwd)/benign/$n.diff" python3 tools/seedeval.py "$n" $props | python3 -c "
import sys, json
bad = 0
for l in sys.stdin:
    d = json.loads(l)
    ok = d.get('rc') == 0
    bad += (not ok)
    print(('ok   ' if ok else 'ALARM') + ' %s %s rc=%s %ss %s' % (d.get('seeded'), d.get('prop'), d.get('rc'), d.get('secs'), d.get('msg', '')[:300]))
sys.exit(1 if bad else 0)"
