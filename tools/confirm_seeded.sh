#!/bin/bash
# usage: tools/confirm_seeded.sh <worktree> <name>
# Re-checks a seeded change in its scratch worktree (change applied there): both builds, the existing
# suite once, the demo with and without the change; then copies patch + demo + notes to /verif/seeded/<name>/.
set -u
wt="$1"; name="$2"; out=/verif/seeded/$name; mkdir -p "$out"
cd "$wt" || exit 2
log="$out/confirm.log"; : > "$log"
demo=tests/seeded_demo.rs; demoarg="--test seeded_demo"
[ -f examples/seeded_demo.rs ] && { demo=examples/seeded_demo.rs; demoarg="--example seeded_demo"; }
git diff -- src/ > /tmp/confirm_$$.diff
if ! diff -q /tmp/confirm_$$.diff seeded_patch.diff >/dev/null; then echo "NOTE: working tree differs from seeded_patch.diff; using seeded_patch.diff" >> "$log"; git checkout -- src/ && git apply seeded_patch.diff || exit 2; fi
echo "== build (plain / cfg)" >> "$log"
cargo build --offline --features serde,rayon >> "$log" 2>&1; b1=$?
RUSTFLAGS="--cfg flurry_verif" cargo build --offline --features serde,rayon --target-dir target/verif >> "$log" 2>&1; b2=$?
echo "== existing suite with the change (demo moved aside)" >> "$log"
mv $demo /tmp/confirm_demo_$$.rs
timeout 900 cargo test --offline --workspace --no-fail-fast 2>&1 | grep -E "^test result|FAILED|panicked" >> "$log"; s1=${PIPESTATUS[0]}
mv /tmp/confirm_demo_$$.rs $demo
echo "== demo with the change" >> "$log"
if [ "$demoarg" = "--test seeded_demo" ]; then timeout 900 cargo test --offline --features serde,rayon $demoarg 2>&1 | tail -15 >> "$log"; d1=${PIPESTATUS[0]}; else timeout 900 cargo run --offline --features serde,rayon $demoarg 2>&1 | tail -15 >> "$log"; d1=${PIPESTATUS[0]}; fi
git apply -R seeded_patch.diff
echo "== demo without the change" >> "$log"
if [ "$demoarg" = "--test seeded_demo" ]; then timeout 900 cargo test --offline --features serde,rayon $demoarg 2>&1 | tail -8 >> "$log"; d0=${PIPESTATUS[0]}; else timeout 900 cargo run --offline --features serde,rayon $demoarg 2>&1 | tail -8 >> "$log"; d0=${PIPESTATUS[0]}; fi
git apply seeded_patch.diff
cp seeded_patch.diff "$out/patch.diff"; cp $demo "$out/"; cp SEEDED.md "$out/SEEDED.md" 2>/dev/null
echo "$name: build=$b1/$b2 suite_with_change=$s1 demo_with_change=$d1 demo_without=$d0"
rm -f /tmp/confirm_$$.diff
