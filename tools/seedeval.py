#!/usr/bin/env python3
"""Run quick checks against the seeded changes in a scratch copy (nothing under /repo or /verif/harness
is touched).  usage: tools/seedeval.py <seeded-name> [<prop> ...]   (default prop = the name's prefix)
Prints one JSON line per (seeded change, property)."""
import json, os, shutil, subprocess, sys, time
MUT = os.environ.get("SEED_SCRATCH", "/tmp/mut2"); REPO = MUT + "/repo"; VERIF = MUT + "/verif"

def sh(cmd, cwd=None, timeout=None, env=None):
    e = dict(os.environ); e.update(env or {})
    return subprocess.run(cmd, shell=True, cwd=cwd, capture_output=True, text=True, timeout=timeout, env=e)

def setup():
    os.makedirs(MUT, exist_ok=True)
    if not os.path.isdir(REPO):
        r = sh("git -C /repo worktree add --detach %s HEAD" % REPO); assert r.returncode == 0, r.stderr
    sh("git checkout -- . && git clean -fdq -- src tests examples && git checkout -q --detach $(git -C /repo rev-parse HEAD)", cwd=REPO)
    os.makedirs(VERIF, exist_ok=True)
    sh("rsync -a --delete --exclude target /verif/harness/ %s/harness/" % VERIF)
    sh("rsync -a --delete --exclude found /verif/replays/ %s/replays/" % VERIF)
    sh("sed -i 's#path = \"/repo\"#path = \"%s\"#' %s/harness/Cargo.toml %s/harness/fuzz/Cargo.toml" % (REPO, VERIF, VERIF))
    sh("sed -i 's#path = \\\\\"/repo\\\\\"#path = \\\\\"%s\\\\\"#' %s/harness/src/checks/typecheck.rs" % (REPO, VERIF))

def main():
    name = sys.argv[1]; props = sys.argv[2:] or [name.split("-")[0]]
    tier = os.environ.get("SEED_TIER", "quick")
    setup()
    patch = os.environ.get("SEED_PATCH") or "/verif/seeded/%s/patch.diff" % name
    r = sh("git apply %s" % patch, cwd=REPO); assert r.returncode == 0, r.stderr
    b = sh("cargo build --release", cwd=VERIF + "/harness", env={"CARGO_NET_OFFLINE": "true"})
    nd = sh("cargo build --profile nodebug", cwd=VERIF + "/harness", env={"CARGO_NET_OFFLINE": "true"})
    ndbin = VERIF + "/harness/target/nodebug/fvh" if nd.returncode == 0 else ""
    if b.returncode != 0:
        print(json.dumps({"seeded": name, "result": "BUILD_FAILED", "err": b.stderr[-800:]})); return
    for prop in props:
        t0 = time.time()
        try:
            r = sh("%s/harness/target/release/fvh run %s --tier %s --seed %s" % (VERIF, prop, tier, os.environ.get("VERIF_SEED", "1")), cwd=VERIF, timeout=3600, env={"VERIF_DIR": VERIF, "FVH_ND_BIN": ndbin})
            rc = r.returncode
            lines = [l for l in r.stdout.splitlines() if not l.startswith("  class")]
            msg = next((l for l in lines if l.strip().startswith("[") or "died" in l), "")
        except subprocess.TimeoutExpired:
            rc, msg = "timeout", ""
        print(json.dumps({"seeded": name, "prop": prop, "tier": tier, "rc": rc, "result": "CAUGHT" if rc == 1 else ("MISSED" if rc == 0 else "INCONCLUSIVE"), "secs": round(time.time() - t0, 1), "msg": msg.strip()[:400]}), flush=True)
        shutil.rmtree(VERIF + "/replays/found", ignore_errors=True)
    sh("git checkout -- .", cwd=REPO)

if __name__ == "__main__":
    main()
