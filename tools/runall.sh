#!/bin/bash
# run every quick check once, print one line per check; usage: tools/runall.sh [seed]
cd "$(dirname "$0")/.."
export VERIF_SEED="${1:-1}"
for p in $(python3 -c "import json;print(' '.join(c['property_id'] for c in json.load(open('MANIFEST.json'))['checks']))"); do
  s=$(date +%s.%N)
  out=$(./check $p quick 2>&1); rc=$?
  e=$(date +%s.%N)
  printf "%s rc=%d %.1fs %s\n" $p $rc $(echo "$e - $s" | bc) "$(echo "$out" | grep -E "^C[0-9]+ quick" | head -1 | cut -c1-110)"
  if [ $rc -ne 0 ]; then echo "$out" | grep -E "VIOLATION|INCONCLUSIVE|\[C" | head -5; fi
done
