#![no_main]
//! bytes -> text -> Deserialize for HashMap / HashSet: a value or an error, never a panic;
//! whatever parses must survive a serialise -> deserialise round trip.
use libfuzzer_sys::fuzz_target;

type M = flurry::HashMap<String, u32>;
type S = flurry::HashSet<String>;

fuzz_target!(|data: &[u8]| {
    let text = match std::str::from_utf8(data) {
        Ok(t) => t,
        Err(_) => return,
    };
    if let Ok(m) = serde_json::from_str::<M>(text) {
        let s = serde_json::to_string(&m).expect("a map that was deserialised must serialise");
        let back: M = serde_json::from_str(&s).expect("our own output must parse");
        assert!(back == m, "round trip changed the map: {} -> {}", text, s);
        // every key of the result was supplied by the document
        if let Ok(serde_json::Value::Object(o)) = serde_json::from_str::<serde_json::Value>(text) {
            let g = m.guard();
            for (k, _) in m.iter(&g) {
                assert!(o.contains_key(k), "key {:?} was not in the document", k);
            }
            assert_eq!(m.len(), o.len(), "entry count differs from the document's distinct keys");
        }
    }
    if let Ok(set) = serde_json::from_str::<S>(text) {
        let s = serde_json::to_string(&set).expect("a set that was deserialised must serialise");
        let back: S = serde_json::from_str(&s).expect("our own output must parse");
        assert!(back == set, "round trip changed the set");
    }
});
