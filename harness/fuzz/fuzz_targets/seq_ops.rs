#![no_main]
//! bytes -> (configuration, operation list) -> the sequential model engine with every oracle on.
use arbitrary::Unstructured;
use fvh::model::*;
use fvh::seq::{run_map_case, Oracles};
use fvh::setseq::run_set_case;
use fvh::types::*;
use libfuzzer_sys::fuzz_target;

fn decode(data: &[u8]) -> Option<SeqCase> {
    let mut u = Unstructured::new(data);
    let hmode = ALL_HMODES[u.int_in_range(0..=8usize).ok()?];
    let capacity = *u.choose(&[0u32, 1, 2, 5, 11, 16, 20, 43, 64, 100]).ok()?;
    let facade = match u.int_in_range(0..=3u8).ok()? {
        0 => Facade::Guarded,
        1 => Facade::Long(u.int_in_range(1..=30u8).ok()?),
        2 => Facade::Pin,
        _ => Facade::WithGuard,
    };
    let batch = *u.choose(&[1u32, 2, 3, 8, 120]).ok()?;
    let universe = *u.choose(&[4u16, 8, 16, 32, 64, 200]).ok()?;
    let keymap = if u.arbitrary::<bool>().ok()? { KeyMap::Dense } else { KeyMap::Mixed };
    let set = u.int_in_range(0..=4u8).ok()? == 0;
    let cfg = Cfg { hmode, capacity, facade, batch, universe, keymap, set };
    let mut ops = Vec::new();
    while !u.is_empty() && ops.len() < 300 {
        let k = u.int_in_range(0..=universe - 1).ok()?;
        let pred = |u: &mut Unstructured| -> Option<Pred> {
            Some(match u.int_in_range(0..=4u8).ok()? {
                0 => Pred::KeyMod(u.int_in_range(1..=5u8).ok()?, u.int_in_range(0..=5u8).ok()?),
                1 => Pred::ValEven,
                2 => Pred::True,
                3 => Pred::False,
                _ => Pred::KeyLess(u.int_in_range(0..=300u16).ok()?),
            })
        };
        let items = |u: &mut Unstructured| -> Option<Vec<u16>> {
            let n = u.int_in_range(0..=120usize).ok()?;
            (0..n).map(|_| u.int_in_range(0..=universe - 1).ok()).collect()
        };
        let op = match u.int_in_range(0..=27u8).ok()? {
            0..=7 => Op::Insert(k),
            8 => Op::TryInsert(k),
            9 => Op::Get(k),
            10 => Op::GetKV(k),
            11 => Op::Contains(k),
            12 | 13 => Op::Remove(k),
            14 => Op::RemoveEntry(k),
            15 => Op::Compute(k, *u.choose(&[Act::Inc, Act::Set, Act::Remove]).ok()?),
            16 => Op::Retain(pred(&mut u)?),
            17 => Op::RetainForce(pred(&mut u)?),
            18 => Op::Clear,
            19 => Op::Reserve(u.int_in_range(0..=600u16).ok()?),
            20 => Op::Extend(items(&mut u)?, u.arbitrary().ok()?),
            21 => Op::Collect(items(&mut u)?, u.arbitrary().ok()?),
            22 => Op::CloneSwap,
            23 => Op::EqCheck,
            24 => Op::Iterate(u.int_in_range(0..=2u8).ok()?),
            25 => Op::Fill(k, u.int_in_range(1..=40u16).ok()?),
            26 => Op::Drain(k, u.int_in_range(1..=40u16).ok()?),
            _ => {
                if set {
                    Op::Relations(items(&mut u)?)
                } else {
                    Op::Index(k)
                }
            }
        };
        ops.push(op);
    }
    Some(SeqCase { cfg, ops })
}

fn quiet() {
    // libfuzzer-sys installs a hook that aborts on every panic; the engines catch expected panics
    // (Index on a missing key, injected faults, aborted schedules) themselves, so silence the hook
    // and abort explicitly on an oracle failure instead
    static ONCE: std::sync::Once = std::sync::Once::new();
    ONCE.call_once(|| std::panic::set_hook(Box::new(|_| {})));
}

fuzz_target!(|data: &[u8]| {
    quiet();
    let case = match decode(data) {
        Some(c) => c,
        None => return,
    };
    let collision_free = case.cfg.hmode == HMode::Identity && case.cfg.keymap == KeyMap::Dense;
    let all = Oracles { returns: true, quiescent: true, ledger: true, canary: true, capacity: collision_free, cmp_bound: true, growth: true };
    // FVH_FUZZ_PROP selects the oracles of one property (so that a failure replays under `./check <prop> --replay`)
    let or = match std::env::var("FVH_FUZZ_PROP").as_deref() {
        Ok("C02") => Oracles { returns: true, ..Default::default() },
        Ok("C03") => Oracles { returns: true, ledger: true, canary: true, ..Default::default() },
        Ok("C04") => Oracles { ledger: true, canary: true, ..Default::default() },
        Ok("C05") => Oracles { quiescent: true, ..Default::default() },
        Ok("C06") => Oracles { quiescent: true, cmp_bound: true, ..Default::default() },
        Ok("C10") => Oracles { quiescent: true, growth: true, ..Default::default() },
        Ok("C14") => Oracles { capacity: true, ..Default::default() },
        _ => all,
    };
    if std::env::var("FVH_FUZZ_PROP").as_deref() == Ok("C14") && !collision_free {
        return;
    }
    let r = if case.cfg.set { run_set_case(&case, Oracles { cmp_bound: false, capacity: false, growth: false, ..or }) } else { run_map_case(&case, or) };
    if let Err(f) = r {
        let js = serde_json::json!({"sub": if case.cfg.set { "set" } else { "map" }, "case": case, "oracle": f.prop, "message": f.msg, "step": f.step});
        let dir = std::env::var("FVH_FOUND_DIR").unwrap_or_else(|_| "/verif/replays/found".into());
        let _ = std::fs::create_dir_all(&dir);
        let path = format!("{}/fuzz-seq_ops-{:016x}.json", dir, fvh::runner::hash_str(&js.to_string()));
        let _ = std::fs::write(&path, serde_json::to_string_pretty(&js).unwrap());
        eprintln!("FUZZ-FAILURE oracle={} replay={} : {}", f.prop, path, f.msg);
        std::process::abort();
    }
});
