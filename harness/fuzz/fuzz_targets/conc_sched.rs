#![no_main]
//! bytes -> (concurrent program, preemption tape) -> one execution under the serialising scheduler,
//! judged with the linearizability / quiescence / memory oracles (coverage-guided schedules).
use arbitrary::Unstructured;
use fvh::checks::concchecks::{base_judge, lin_judge};
use fvh::conc::*;
use fvh::model::{Act, Pred};
use fvh::sched::Pool;
use fvh::types::*;
use libfuzzer_sys::fuzz_target;
thread_local! {
    // libFuzzer calls the target from one thread; the pool's worker threads live as long as it does
    static POOL: Pool = Pool::new();
}

fn decode(data: &[u8]) -> Option<(Prog, Vec<(u64, u8)>)> {
    let mut u = Unstructured::new(data);
    let hmode = ALL_HMODES[u.int_in_range(0..=8usize).ok()?];
    let capacity = *u.choose(&[0u32, 1, 20, 42, 43, 85]).ok()?;
    let batch = *u.choose(&[1u32, 2, 8, 120]).ok()?;
    let gmode = *u.choose(&[GuardMode::PerOp, GuardMode::PerThread, GuardMode::Pin]).ok()?;
    let hot_pat = u.int_in_range(0..=3u8).ok()?;
    let shape = u.int_in_range(0..=5u8).ok()?;
    let capacity = if shape == 5 { 42 } else { capacity };
    let (filler, hot_init): (u16, Vec<u16>) = match shape {
        0 => (0, vec![]),
        // a 64-bin table at its threshold with present keys all over the table (several threads
        // can take part in the resize)
        5 => {
            let m = u.int_in_range(4..=12u16).ok()?;
            (near_threshold_filler(42, u.int_in_range(0..=2i32).ok()?, m as usize), (16..16 + m).collect())
        }
        1 => (near_threshold_filler(capacity, u.int_in_range(0..=2i32).ok()?, 0), vec![]),
        2 => (0, (0..7).collect()),
        3 => (0, (0..8).collect()),
        _ => (0, (0..u.int_in_range(9..=12u16).ok()?).collect()),
    };
    let capacity = if shape >= 2 && shape != 5 && capacity < 43 { 43 } else { capacity };
    let nthreads = u.int_in_range(2..=4usize).ok()?;
    let mut threads = Vec::new();
    for _ in 0..nthreads {
        let nops = u.int_in_range(1..=4usize).ok()?;
        let mut ops = Vec::new();
        for _ in 0..nops {
            let k = if shape == 5 { 16 + u.int_in_range(0..=30u16).ok()? } else { u.int_in_range(0..=13u16).ok()? };
            ops.push(match u.int_in_range(0..=13u8).ok()? {
                0 | 1 => COp::Get(k),
                2 => COp::GetKV(k),
                3..=5 => COp::Insert(k),
                6 => COp::TryInsert(k),
                7 | 8 => COp::Remove(k),
                9 => COp::Compute(k, *u.choose(&[Act::Inc, Act::Set, Act::Remove]).ok()?),
                10 => COp::IterAll(u.int_in_range(0..=2u8).ok()?),
                11 => COp::RetainForce(Pred::KeyLess(u.int_in_range(0..=3u16).ok()? * 1024 + 1)),
                12 => COp::Insert(16 + k),
                _ => COp::Reserve(u.int_in_range(1..=80u16).ok()?),
            });
        }
        threads.push(ops);
    }
    let mut tape = Vec::new();
    let mut step = 0u64;
    while !u.is_empty() && tape.len() < 16 {
        step += u.int_in_range(1..=if shape == 5 { 250u64 } else { 60u64 }).ok()?;
        tape.push((step, u.int_in_range(0..=nthreads as u8 - 1).ok()?));
    }
    Some((Prog { cfg: CCfg { hmode, capacity, batch, gmode, hot_pat }, filler, hot_init, threads }, tape))
}

fn quiet() {
    // libfuzzer-sys installs a hook that aborts on every panic; the engines catch expected panics
    // (Index on a missing key, injected faults, aborted schedules) themselves, so silence the hook
    // and abort explicitly on an oracle failure instead
    static ONCE: std::sync::Once = std::sync::Once::new();
    ONCE.call_once(|| std::panic::set_hook(Box::new(|_| {})));
}

fuzz_target!(|data: &[u8]| {
    quiet();
    let (prog, tape) = match decode(data) {
        Some(x) => x,
        None => return,
    };
    let opts = ExecOpts { retire_reachability: true, ledger_check: true, ..ExecOpts::DEFAULT };
    let out = POOL.with(|pool| exec(pool, &prog, SchedSpec { switches: tape.clone(), ..Default::default() }, &opts, None));
    let verdict = base_judge("C01", &out).map_err(|e| e.1).and_then(|_| lin_judge(&prog, &out).map(|_| ()).map_err(|m| format!("[C01] {}", m)));
    if let Err(m) = verdict {
        let js = serde_json::json!({"sub": "lin", "case": {"prog": prog, "schedule": out.performed}, "message": m});
        let dir = std::env::var("FVH_FOUND_DIR").unwrap_or_else(|_| "/verif/replays/found".into());
        let _ = std::fs::create_dir_all(&dir);
        let path = format!("{}/fuzz-conc_sched-{:016x}.json", dir, fvh::runner::hash_str(&js.to_string()));
        let _ = std::fs::write(&path, serde_json::to_string_pretty(&js).unwrap());
        eprintln!("FUZZ-FAILURE replay={} : {}", path, m);
        std::process::abort();
    }
});
