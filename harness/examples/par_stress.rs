//! scratch finder: repeat a parallel extend many times and inspect the quiescent state
use fvh::types::*;
use rayon::prelude::*;
type UM = flurry::HashMap<u32, u32, HB>;
fn main() {
    let args: Vec<String> = std::env::args().collect();
    let threads: usize = args.get(1).and_then(|s| s.parse().ok()).unwrap_or(7);
    let iters: usize = args.get(2).and_then(|s| s.parse().ok()).unwrap_or(100000);
    let pre: usize = args.get(3).and_then(|s| s.parse().ok()).unwrap_or(13);
    let nitems: usize = args.get(4).and_then(|s| s.parse().ok()).unwrap_or(29);
    let pool = rayon::ThreadPoolBuilder::new().num_threads(threads).build().unwrap();
    let mode = HMode::SameBin;
    for it in 0..iters {
        let m = UM::with_hasher(HB(mode));
        for k in 0..pre as u32 {
            m.pin().insert(k * 3 + 100, k);
        }
        let items: Vec<(u32, u32)> = (0..nitems as u32).map(|i| (i, i)).collect();
        pool.install(|| (&m).par_extend(items.clone().into_par_iter()));
        let d = unsafe { m.verif_dump() };
        if d.next_table.is_some() || d.size_ctl < 0 {
            let tl = d.table.as_ref().map_or(0, |t| t.bins.len());
            let nl = d.next_table.as_ref().map_or(0, |t| t.bins.len());
            let moved = d.table.as_ref().map_or(0, |t| t.bins.iter().filter(|b| matches!(b, flurry::verif::BinDump::Moved)).count());
            println!("iteration {}: table {} bins ({} forwarded), next_table {} bins, size_ctl {} ({:#x}), transfer_index {}, count {}", it, tl, moved, nl, d.size_ctl, d.size_ctl, d.transfer_index, d.count);
            std::mem::forget(m);
            return;
        }
    }
    println!("no failure in {} iterations", iters);
}
