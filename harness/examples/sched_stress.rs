//! scratch finder: long insert-only programs on many threads under the scheduler with random tapes
use fvh::conc::*;
use fvh::sched::Pool;
use fvh::types::*;
fn main() {
    let args: Vec<String> = std::env::args().collect();
    let threads: usize = args.get(1).and_then(|s| s.parse().ok()).unwrap_or(4);
    let per: usize = args.get(2).and_then(|s| s.parse().ok()).unwrap_or(16);
    let iters: u64 = args.get(3).and_then(|s| s.parse().ok()).unwrap_or(20000);
    let seed0: u64 = args.get(4).and_then(|s| s.parse().ok()).unwrap_or(1);
    let pool = Pool::new();
    std::panic::set_hook(Box::new(|_| {}));
    for it in 0..iters {
        let mut ths = Vec::new();
        for t in 0..threads {
            ths.push((0..per).map(|j| COp::Insert(16 + (t * per + j) as u16)).collect::<Vec<_>>());
        }
        let prog = Prog { cfg: CCfg { hmode: HMode::Mix, capacity: 0, batch: 8, gmode: GuardMode::PerOp, hot_pat: 0 }, filler: 0, hot_init: vec![], threads: ths };
        let seed = fvh::runner::splitmix(seed0 * 1_000_003 + it);
        let gap = [2u32, 5, 12, 30, 80][(it % 5) as usize];
        let spec = SchedSpec { random: Some((seed, gap)), step_budget: 2_000_000, ..Default::default() };
        let opts = ExecOpts { collect_events: true, hold_refs: false, ..ExecOpts::DEFAULT };
        let out = exec(&pool, &prog, spec, &opts, None);
        let bad = out.verdict.is_some() || out.oracle_fail.is_some() || out.fin.len() != threads * per;
        if bad {
            println!("iteration {} seed {} gap {}: verdict {:?} oracle {:?} entries {} (expected {}) steps {}", it, seed, gap, out.verdict, out.oracle_fail, out.fin.len(), threads * per, out.steps);
            println!("{}", serde_json::to_string(&serde_json::json!({"prog": prog, "schedule": out.performed})).unwrap());
            return;
        }
    }
    println!("no failure in {} iterations", iters);
}
