//! scratch tool: minimise the preemption list of a failing concurrent case and print its site events
use fvh::checks::concchecks::base_judge;
use fvh::checks::concchecks::ConcCase;
use fvh::conc::*;
use fvh::sched::{Ev, Pool};
fn judge(_p: &Prog, out: &ConcOut) -> Result<(bool, Vec<(&'static str, u64)>), (String, String)> {
    base_judge("C10", out)?;
    Ok((false, vec![]))
}
fn main() {
    let f = std::env::args().nth(1).unwrap();
    let v: serde_json::Value = serde_json::from_slice(&std::fs::read(&f).unwrap()).unwrap();
    let cc: ConcCase = serde_json::from_value(v["case"].clone()).unwrap();
    std::panic::set_hook(Box::new(|_| {}));
    let pool = Pool::new();
    let opts = ExecOpts { collect_events: true, hold_refs: false, ..ExecOpts::DEFAULT };
    let sched = SchedDesc { switches: cc.schedule.clone().unwrap() };
    let min = minimize_schedule(&pool, &cc.prog, &sched, &opts, None, &judge);
    eprintln!("minimised {} -> {} preemptions: {:?}", sched.switches.len(), min.switches.len(), min.switches);
    let out = exec(&pool, &cc.prog, SchedSpec { switches: min.switches.clone(), record_trace: true, ..Default::default() }, &opts, None);
    eprintln!("verdict {:?} oracle {:?}", out.verdict, out.oracle_fail);
    for e in &out.events {
        if let Ev::Site { thread, step, kind, a, b } = e {
            let k = match *kind { 1 => "BIN_MOVED", 2 => "PUBLISHED", 3 => continue, 4 => continue, 5 => continue, 6 => "RESIZE_INIT", _ => "?" };
            if *kind == 1 { continue; }
            eprintln!("step {:5} T{} {} a={:#x} b={:#x}", step, thread, k, a, b);
        }
    }
    println!("{}", serde_json::to_string(&serde_json::json!({"sub": "resize", "case": ConcCase { prog: cc.prog.clone(), schedule: Some(min.switches), budget: None }})).unwrap());
}
