use fvh::checks::concchecks::ConcCase;
use fvh::conc::*;
use fvh::sched::Pool;
fn main() {
    let f = std::env::args().nth(1).unwrap();
    let pg = std::env::args().nth(2).map_or(false, |s| s == "pg");
    let v: serde_json::Value = serde_json::from_slice(&std::fs::read(&f).unwrap()).unwrap();
    let cc: ConcCase = serde_json::from_value(v["case"].clone()).unwrap();
    std::panic::set_hook(Box::new(|_| {}));
    let pool = Pool::new();
    let opts = ExecOpts { collect_events: true, hold_refs: false, post_growth: pg, ..ExecOpts::DEFAULT };
    for _ in 0..3 {
        let out = exec(&pool, &cc.prog, SchedSpec { switches: cc.schedule.clone().unwrap(), ..Default::default() }, &opts, None);
        println!("verdict {:?} oracle {:?} performed {:?} steps {}", out.verdict, out.oracle_fail, out.performed, out.steps);
    }
}
