use fvh::checks::concchecks::ConcCase;
use fvh::conc::*;
use fvh::sched::{Ev, Pool};
fn main() {
    let f = std::env::args().nth(1).unwrap();
    let pg = std::env::args().nth(2).map_or(false, |s| s == "pg");
    let v: serde_json::Value = serde_json::from_slice(&std::fs::read(&f).unwrap()).unwrap();
    let cc: ConcCase = serde_json::from_value(v["case"].clone()).unwrap();
    std::panic::set_hook(Box::new(|_| {}));
    let pool = Pool::new();
    let opts = ExecOpts { collect_events: true, hold_refs: false, post_growth: pg, ..ExecOpts::DEFAULT };
    let out = exec(&pool, &cc.prog, SchedSpec { switches: cc.schedule.clone().unwrap(), record_trace: true, ..Default::default() }, &opts, None);
    println!("verdict {:?} oracle {:?} performed {:?} steps {}", out.verdict, out.oracle_fail, out.performed, out.steps);
    println!("tables {} -> {}", out.table_len_before, out.table_len_after);
    for e in &out.events {
        if let Ev::Site { thread, step, kind, a, b } = e {
            println!("  site T{} step {} kind {} a {:#x} b {}", thread, step, kind, a, b);
        }
    }
    for e in &out.recs.ops {
        println!("  op {:?}", e);
    }
    println!("  clears {:?}", out.recs.clears);
    println!("  init keys {:?}", out.init.keys().collect::<Vec<_>>());
    println!("  fin keys {:?}", out.fin.keys().collect::<Vec<_>>());
    let mut last = 255u8;
    for t in &out.trace {
        if t.thread != last {
            println!("  step {} -> T{}", t.step, t.thread);
            last = t.thread;
        }
    }
}
