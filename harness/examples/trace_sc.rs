//! scratch tool: trace every access to size_ctl / transfer_index in a replayed case
use fvh::checks::concchecks::ConcCase;
use fvh::conc::*;
use fvh::sched::{self, Ev, Pool, RunSpec, Wk, Body};
use std::sync::{Arc, Mutex};
fn main() {
    let f = std::env::args().nth(1).unwrap();
    let from: u64 = std::env::args().nth(2).and_then(|s| s.parse().ok()).unwrap_or(0);
    let to: u64 = std::env::args().nth(3).and_then(|s| s.parse().ok()).unwrap_or(u64::MAX);
    let v: serde_json::Value = serde_json::from_slice(&std::fs::read(&f).unwrap()).unwrap();
    let cc: ConcCase = serde_json::from_value(v["case"].clone()).unwrap();
    std::panic::set_hook(Box::new(|_| {}));
    let pool = Pool::new();
    let (map, _init) = build_map(&cc.prog);
    let evs: Arc<Mutex<Vec<Ev>>> = Arc::new(Mutex::new(Vec::new()));
    let e2 = evs.clone();
    let vals: Arc<Mutex<Vec<isize>>> = Arc::new(Mutex::new(Vec::new()));
    let v2 = vals.clone();
    let sink: sched::Sink = Box::new(move |e: &Ev| {
        e2.lock().unwrap().push(*e);
        // value of the location just before the operation executes
        let v = if let Ev::Atomic { addr, .. } = e { unsafe { *(*addr as *const isize) } } else { 0 };
        v2.lock().unwrap().push(v);
    });
    let mut bodies: Vec<Body> = Vec::new();
    for ops in cc.prog.threads.iter() {
        let map = map.clone();
        let ops = ops.clone();
        bodies.push(Box::new(move |wk: &Wk<'_>| {
            for op in &ops {
                if let COp::Insert(k) = op {
                    let g = map.guard();
                    wk.op_start();
                    map.insert(fvh::types::K::new(hot_tag(*k)), fvh::types::V::new(1), &g);
                    wk.op_end();
                }
            }
            drop(map);
        }));
    }
    let out = sched::run(&pool, RunSpec { switches: cc.schedule.clone().unwrap(), sink: Some(sink), ..Default::default() }, bodies);
    println!("verdict {:?}", out.verdict);
    let evs = evs.lock().unwrap();
    // size_ctl = the location stored to by the publishing thread right after PUBLISHED
    let mut sc_addr = 0usize;
    for (i, e) in evs.iter().enumerate() {
        if let Ev::Site { kind: 2, thread, .. } = e {
            for e2 in &evs[i + 1..] {
                if let Ev::Atomic { thread: t2, kind: 1, addr, .. } = e2 {
                    if t2 == thread {
                        sc_addr = *addr;
                        break;
                    }
                }
            }
            break;
        }
    }
    println!("size_ctl at {:#x}", sc_addr);
    let names = ["LOAD", "STORE", "RMW", "CAS"];
    let vals = vals.lock().unwrap();
    let show = |v: isize| if v < 0 { let st = v >> 32; format!("stamp({}) + {}", 64 - (st & 0xffff) - 1, v & 0xffff_ffff) } else { format!("{}", v) };
    for (i, e) in evs.iter().enumerate() {
        match e {
            Ev::Atomic { thread, step, addr, kind, .. } if *addr == sc_addr && *step >= from && *step <= to => println!("step {:5} T{} size_ctl {:5} (value before: {})", step, thread, names[*kind as usize], show(vals[i])),
            Ev::Site { thread, step, kind, a, b } if (*kind == 2 || *kind == 6) && *step >= from && *step <= to => println!("step {:5} T{} {} a={:#x} b={:#x}", step, thread, if *kind == 2 { "PUBLISHED" } else { "RESIZE_INIT" }, a, b),
            _ => {}
        }
    }
    std::mem::forget(map);
}
