//! E5: vector-clock happens-before monitor driven by the hook stream of an E2 execution.
//! Release/SeqCst stores publish the writer's clock on the location, relaxed stores clear it
//! (C++20 release sequences: only read-modify-writes continue one), acquire/SeqCst loads join it,
//! mutex release/acquire likewise.  The harness's own token passing is invisible to the monitor.
use crate::sched::Ev;
use std::collections::HashMap;
use std::sync::atomic::Ordering;

pub const N: usize = 10;
type VC = [u32; N];

pub const U_INIT_V: u32 = 1;
pub const U_ACCESS_V: u32 = 2;
pub const U_INIT_K: u32 = 3;
pub const U_ACCESS_K: u32 = 4;
pub const U_CLONE_K: u32 = 5;

fn join(a: &mut VC, b: &VC) {
    for i in 0..N {
        if b[i] > a[i] {
            a[i] = b[i];
        }
    }
}
fn acq(o: Ordering) -> bool {
    matches!(o, Ordering::Acquire | Ordering::AcqRel | Ordering::SeqCst)
}
fn rel(o: Ordering) -> bool {
    matches!(o, Ordering::Release | Ordering::AcqRel | Ordering::SeqCst)
}

pub struct Hb {
    vc: Vec<VC>,
    rc: HashMap<usize, VC>,
    mc: HashMap<usize, VC>,
    /// payload -> (initialising thread, its clock component at initialisation, by clone of foreign key)
    init_v: HashMap<u64, (usize, u32)>,
    init_k: HashMap<u64, (usize, u32, bool)>,
    /// the compare-exchange announced last: (thread, location, the thread's clock and the location's
    /// release clock before it was applied as a success, failure ordering)
    last_cas: Option<(usize, usize, VC, Option<VC>, Ordering)>,
    pub violations: Vec<String>,
    pub checked: u64,
    pub cross_thread: u64,
    pub cross_copy: u64,
}

fn tix(t: usize) -> usize {
    if t >= N {
        N - 1
    } else {
        t
    }
}

impl Hb {
    pub fn new() -> Hb {
        let mut vc = vec![[0u32; N]; N];
        for (i, v) in vc.iter_mut().enumerate() {
            v[i] = 1;
        }
        Hb { vc, rc: HashMap::new(), mc: HashMap::new(), init_v: HashMap::new(), init_k: HashMap::new(), last_cas: None, violations: Vec::new(), checked: 0, cross_thread: 0, cross_copy: 0 }
    }

    fn access(&mut self, t: usize, what: &str, id: u64, info: Option<(usize, u32, bool)>, step: u64) {
        if let Some((w, c, copied)) = info {
            self.checked += 1;
            if w != t {
                self.cross_thread += 1;
                if copied {
                    self.cross_copy += 1;
                }
                if self.vc[t][w] < c {
                    if self.violations.len() < 4 {
                        self.violations.push(format!(
                            "step {}: T{} obtained {} {} that T{} initialised, but nothing on the path from T{} to T{} orders the initialisation before this access (missing release/acquire edge)",
                            step, t, what, id, w, w, t
                        ));
                    }
                }
            }
        }
    }

    pub fn on(&mut self, e: &Ev) {
        match *e {
            Ev::Atomic { thread, addr, kind, ord, ord_fail, .. } => {
                let t = tix(thread);
                match kind {
                    flurry::verif::LOAD => {
                        if acq(ord) {
                            if let Some(r) = self.rc.get(&addr) {
                                let r = *r;
                                join(&mut self.vc[t], &r);
                            }
                        }
                    }
                    flurry::verif::STORE => {
                        if rel(ord) {
                            self.rc.insert(addr, self.vc[t]);
                            self.vc[t][t] += 1;
                        } else {
                            self.rc.remove(&addr);
                        }
                    }
                    _ => {
                        // RMW / CAS.  The outcome of a CAS is not known at hook time: it is applied
                        // as a success here (release side, and the stronger of its two orderings on
                        // the acquire side); if the `EV_CAS_FAILED` event follows, this is undone and
                        // only the failure ordering is applied (see `Ev::Site` below)
                        if kind == flurry::verif::CAS {
                            self.last_cas = Some((t, addr, self.vc[t], self.rc.get(&addr).copied(), ord_fail));
                        }
                        if acq(ord) || acq(ord_fail) {
                            if let Some(r) = self.rc.get(&addr) {
                                let r = *r;
                                join(&mut self.vc[t], &r);
                            }
                        }
                        if rel(ord) {
                            let cur = self.vc[t];
                            let ent = self.rc.entry(addr).or_insert([0; N]);
                            join(ent, &cur);
                            self.vc[t][t] += 1;
                        }
                    }
                }
            }
            Ev::Locked { thread, addr } => {
                let t = tix(thread);
                if let Some(m) = self.mc.get(&addr) {
                    let m = *m;
                    join(&mut self.vc[t], &m);
                }
            }
            Ev::Unlocking { thread, addr } => {
                let t = tix(thread);
                self.mc.insert(addr, self.vc[t]);
                self.vc[t][t] += 1;
            }
            Ev::Site { thread, kind, a, .. } => {
                if kind == flurry::verif::EV_CAS_FAILED {
                    if let Some((t, addr, vc, rc, ord_fail)) = self.last_cas.take() {
                        if t == tix(thread) && addr == a {
                            // nothing was stored: no release, and the load half has the failure ordering
                            self.vc[t] = vc;
                            match rc {
                                Some(r) => {
                                    self.rc.insert(addr, r);
                                    if acq(ord_fail) {
                                        join(&mut self.vc[t], &r);
                                    }
                                }
                                None => {
                                    self.rc.remove(&addr);
                                }
                            }
                        }
                    }
                }
            }
            Ev::User { thread, step, tag, a, b } => {
                let t = tix(thread);
                match tag {
                    U_INIT_V => {
                        self.vc[t][t] += 1;
                        self.init_v.insert(a, (t, self.vc[t][t]));
                    }
                    U_INIT_K => {
                        self.vc[t][t] += 1;
                        self.init_k.insert(a, (t, self.vc[t][t], false));
                    }
                    U_ACCESS_V => {
                        let info = self.init_v.get(&a).map(|x| (x.0, x.1, false));
                        self.access(t, "value", a, info, step);
                    }
                    U_ACCESS_K => {
                        let info = self.init_k.get(&a).copied();
                        self.access(t, "key instance", a, info, step);
                    }
                    U_CLONE_K => {
                        // reading the original is an access; the copy is initialised by the copier
                        let info = self.init_k.get(&a).copied();
                        let foreign = info.map_or(false, |i| i.0 != t);
                        self.access(t, "key instance (to clone it)", a, info, step);
                        self.vc[t][t] += 1;
                        self.init_k.insert(b, (t, self.vc[t][t], foreign));
                    }
                    _ => {}
                }
            }
        }
    }
}
