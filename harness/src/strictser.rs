//! A minimal serde data format that trusts what the serialiser announces (as length-prefixed binary
//! formats do): a map of numbers to numbers or a sequence of numbers becomes a `Doc` that records
//! the announced length next to the entries actually emitted.  Plus a JSON reader that keeps
//! duplicate keys.
use serde::ser::{self, Impossible, Serialize};
use std::fmt;

#[derive(Debug)]
pub struct E(pub String);
impl fmt::Display for E {
    fn fmt(&self, f: &mut fmt::Formatter<'_>) -> fmt::Result {
        f.write_str(&self.0)
    }
}
impl std::error::Error for E {}
impl ser::Error for E {
    fn custom<T: fmt::Display>(m: T) -> Self {
        E(m.to_string())
    }
}

#[derive(Debug, Default)]
pub struct Doc {
    pub announced: Option<usize>,
    /// (key, value) of a map; (element, 0) of a sequence
    pub entries: Vec<(u64, u64)>,
}
impl Doc {
    /// the announced length, if any, must be the number of entries that follow
    pub fn check(&self) -> Result<(), String> {
        match self.announced {
            Some(n) if n != self.entries.len() => Err(format!("the serialiser announced {} entries and then emitted {} (a format that trusts the announced length produces a corrupt document)", n, self.entries.len())),
            _ => Ok(()),
        }
    }
}

pub fn to_doc<T: Serialize + ?Sized>(x: &T) -> Result<Doc, String> {
    x.serialize(Top).map_err(|e| e.0)
}

macro_rules! unsupported {
    ($($f:ident($t:ty))*) => { $(fn $f(self, _: $t) -> Result<Self::Ok, E> { Err(E(concat!(stringify!($f), " is not part of this format").into())) })* };
}

struct Num;
impl ser::Serializer for Num {
    type Ok = u64;
    type Error = E;
    type SerializeSeq = Impossible<u64, E>;
    type SerializeTuple = Impossible<u64, E>;
    type SerializeTupleStruct = Impossible<u64, E>;
    type SerializeTupleVariant = Impossible<u64, E>;
    type SerializeMap = Impossible<u64, E>;
    type SerializeStruct = Impossible<u64, E>;
    type SerializeStructVariant = Impossible<u64, E>;
    fn serialize_u8(self, v: u8) -> Result<u64, E> {
        Ok(v as u64)
    }
    fn serialize_u16(self, v: u16) -> Result<u64, E> {
        Ok(v as u64)
    }
    fn serialize_u32(self, v: u32) -> Result<u64, E> {
        Ok(v as u64)
    }
    fn serialize_u64(self, v: u64) -> Result<u64, E> {
        Ok(v)
    }
    fn serialize_unit(self) -> Result<u64, E> {
        Ok(0)
    }
    unsupported! { serialize_bool(bool) serialize_i8(i8) serialize_i16(i16) serialize_i32(i32) serialize_i64(i64) serialize_f32(f32) serialize_f64(f64) serialize_char(char) serialize_str(&str) serialize_bytes(&[u8]) serialize_unit_struct(&'static str) }
    fn serialize_none(self) -> Result<u64, E> {
        Err(E("option".into()))
    }
    fn serialize_some<T: Serialize + ?Sized>(self, _: &T) -> Result<u64, E> {
        Err(E("option".into()))
    }
    fn serialize_unit_variant(self, _: &'static str, _: u32, _: &'static str) -> Result<u64, E> {
        Err(E("variant".into()))
    }
    fn serialize_newtype_struct<T: Serialize + ?Sized>(self, _: &'static str, v: &T) -> Result<u64, E> {
        v.serialize(Num)
    }
    fn serialize_newtype_variant<T: Serialize + ?Sized>(self, _: &'static str, _: u32, _: &'static str, _: &T) -> Result<u64, E> {
        Err(E("variant".into()))
    }
    fn serialize_seq(self, _: Option<usize>) -> Result<Self::SerializeSeq, E> {
        Err(E("nested sequence".into()))
    }
    fn serialize_tuple(self, _: usize) -> Result<Self::SerializeTuple, E> {
        Err(E("tuple".into()))
    }
    fn serialize_tuple_struct(self, _: &'static str, _: usize) -> Result<Self::SerializeTupleStruct, E> {
        Err(E("tuple struct".into()))
    }
    fn serialize_tuple_variant(self, _: &'static str, _: u32, _: &'static str, _: usize) -> Result<Self::SerializeTupleVariant, E> {
        Err(E("variant".into()))
    }
    fn serialize_map(self, _: Option<usize>) -> Result<Self::SerializeMap, E> {
        Err(E("nested map".into()))
    }
    fn serialize_struct(self, _: &'static str, _: usize) -> Result<Self::SerializeStruct, E> {
        Err(E("struct".into()))
    }
    fn serialize_struct_variant(self, _: &'static str, _: u32, _: &'static str, _: usize) -> Result<Self::SerializeStructVariant, E> {
        Err(E("variant".into()))
    }
}

pub struct Body {
    doc: Doc,
    key: Option<u64>,
}
impl ser::SerializeMap for Body {
    type Ok = Doc;
    type Error = E;
    fn serialize_key<T: Serialize + ?Sized>(&mut self, k: &T) -> Result<(), E> {
        self.key = Some(k.serialize(Num)?);
        Ok(())
    }
    fn serialize_value<T: Serialize + ?Sized>(&mut self, v: &T) -> Result<(), E> {
        let k = self.key.take().ok_or_else(|| E("value without a key".into()))?;
        self.doc.entries.push((k, v.serialize(Num)?));
        Ok(())
    }
    fn end(self) -> Result<Doc, E> {
        Ok(self.doc)
    }
}
impl ser::SerializeSeq for Body {
    type Ok = Doc;
    type Error = E;
    fn serialize_element<T: Serialize + ?Sized>(&mut self, v: &T) -> Result<(), E> {
        self.doc.entries.push((v.serialize(Num)?, 0));
        Ok(())
    }
    fn end(self) -> Result<Doc, E> {
        Ok(self.doc)
    }
}

struct Top;
impl ser::Serializer for Top {
    type Ok = Doc;
    type Error = E;
    type SerializeSeq = Body;
    type SerializeTuple = Impossible<Doc, E>;
    type SerializeTupleStruct = Impossible<Doc, E>;
    type SerializeTupleVariant = Impossible<Doc, E>;
    type SerializeMap = Body;
    type SerializeStruct = Impossible<Doc, E>;
    type SerializeStructVariant = Impossible<Doc, E>;
    unsupported! { serialize_bool(bool) serialize_i8(i8) serialize_i16(i16) serialize_i32(i32) serialize_i64(i64) serialize_u8(u8) serialize_u16(u16) serialize_u32(u32) serialize_u64(u64) serialize_f32(f32) serialize_f64(f64) serialize_char(char) serialize_str(&str) serialize_bytes(&[u8]) serialize_unit_struct(&'static str) }
    fn serialize_unit(self) -> Result<Doc, E> {
        Err(E("unit".into()))
    }
    fn serialize_none(self) -> Result<Doc, E> {
        Err(E("option".into()))
    }
    fn serialize_some<T: Serialize + ?Sized>(self, _: &T) -> Result<Doc, E> {
        Err(E("option".into()))
    }
    fn serialize_unit_variant(self, _: &'static str, _: u32, _: &'static str) -> Result<Doc, E> {
        Err(E("variant".into()))
    }
    fn serialize_newtype_struct<T: Serialize + ?Sized>(self, _: &'static str, v: &T) -> Result<Doc, E> {
        v.serialize(Top)
    }
    fn serialize_newtype_variant<T: Serialize + ?Sized>(self, _: &'static str, _: u32, _: &'static str, _: &T) -> Result<Doc, E> {
        Err(E("variant".into()))
    }
    fn serialize_seq(self, len: Option<usize>) -> Result<Body, E> {
        Ok(Body { doc: Doc { announced: len, entries: Vec::new() }, key: None })
    }
    fn serialize_tuple(self, _: usize) -> Result<Self::SerializeTuple, E> {
        Err(E("tuple".into()))
    }
    fn serialize_tuple_struct(self, _: &'static str, _: usize) -> Result<Self::SerializeTupleStruct, E> {
        Err(E("tuple struct".into()))
    }
    fn serialize_tuple_variant(self, _: &'static str, _: u32, _: &'static str, _: usize) -> Result<Self::SerializeTupleVariant, E> {
        Err(E("variant".into()))
    }
    fn serialize_map(self, len: Option<usize>) -> Result<Body, E> {
        Ok(Body { doc: Doc { announced: len, entries: Vec::new() }, key: None })
    }
    fn serialize_struct(self, _: &'static str, _: usize) -> Result<Self::SerializeStruct, E> {
        Err(E("struct".into()))
    }
    fn serialize_struct_variant(self, _: &'static str, _: u32, _: &'static str, _: usize) -> Result<Self::SerializeStructVariant, E> {
        Err(E("variant".into()))
    }
}

/// a JSON object of numbers read entry by entry (duplicate keys are kept)
pub struct JsonPairs(pub Vec<(u64, u64)>);
impl<'de> serde::Deserialize<'de> for JsonPairs {
    fn deserialize<D: serde::Deserializer<'de>>(d: D) -> Result<Self, D::Error> {
        struct Vis;
        impl<'de> serde::de::Visitor<'de> for Vis {
            type Value = JsonPairs;
            fn expecting(&self, f: &mut fmt::Formatter<'_>) -> fmt::Result {
                f.write_str("a map of numbers")
            }
            fn visit_map<A: serde::de::MapAccess<'de>>(self, mut a: A) -> Result<JsonPairs, A::Error> {
                let mut v = Vec::new();
                while let Some((k, x)) = a.next_entry::<u64, u64>()? {
                    v.push((k, x));
                }
                Ok(JsonPairs(v))
            }
        }
        d.deserialize_map(Vis)
    }
}
