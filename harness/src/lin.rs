//! E3: per-key linearizability checker (Wing–Gong search with memoisation, as in Lowe's
//! "Testing for linearizability").  A map over single-key operations is a product of independent
//! cells, so by locality the history is linearizable iff every per-key sub-history is.
//! All written values carry unique ids, so a result names the write it read from.
use serde::Serialize;
use std::collections::HashSet;

#[derive(Clone, Debug, PartialEq, Eq, Serialize)]
pub enum HOp {
    /// get / get_key_value: returned value id
    Get { ret: Option<u64> },
    /// a write whose result is not observable (an item of `extend`): the cell holds `new` afterwards
    Put { new: u64 },
    Contains { ret: bool },
    Insert { new: u64, ret: Option<u64> },
    /// Ok(()) inserted, Err(current value id)
    TryInsert { new: u64, ret: Result<(), u64> },
    Remove { ret: Option<u64> },
    /// compute_if_present: `seen` = value the closure was given (None = closure not invoked),
    /// `out` = value id it produced (None = it asked for removal / was not invoked),
    /// `ret` = value id the call returned
    Compute { seen: Option<u64>, out: Option<u64>, ret: Option<u64> },
    /// retain rejected (k, v): remove k iff it still maps to v (result not observable)
    CondRemove { v: u64 },
    /// retain_force rejected k: remove it whatever it maps to
    ForceRemove,
    /// HashSet::insert: true iff the value was not present (the cell then holds instance `new`)
    SetInsert { new: u64, ret: bool },
    /// HashSet::remove: true iff the value was present
    SetRemove { ret: bool },
    /// a conditional removal whose condition the harness cannot observe (set retain racing a
    /// re-insertion of the same element, which replaces the unit value): removes instance `v` or
    /// does nothing
    MaybeRemove { v: u64 },
    /// an unconditional removal that may or may not happen (the second and later passes of a
    /// `clear` that restarted in the next table after meeting a forwarding marker)
    MaybeForceRemove,
}

#[derive(Clone, Debug, Serialize)]
pub struct HEnt {
    pub thread: u8,
    pub inv: u64,
    pub resp: u64,
    pub key: u32,
    pub op: HOp,
}

/// apply `op` in state `s`; None = the recorded result is impossible in this state
fn apply(op: &HOp, s: Option<u64>) -> Option<Option<u64>> {
    match op {
        HOp::Get { ret } => {
            if *ret == s {
                Some(s)
            } else {
                None
            }
        }
        HOp::Put { new } => Some(Some(*new)),
        HOp::Contains { ret } => {
            if *ret == s.is_some() {
                Some(s)
            } else {
                None
            }
        }
        HOp::Insert { new, ret } => {
            if *ret == s {
                Some(Some(*new))
            } else {
                None
            }
        }
        HOp::TryInsert { new, ret } => match (ret, s) {
            (Ok(()), None) => Some(Some(*new)),
            (Err(c), Some(cur)) if *c == cur => Some(s),
            _ => None,
        },
        HOp::Remove { ret } => {
            if *ret == s {
                Some(None)
            } else {
                None
            }
        }
        HOp::Compute { seen, out, ret } => {
            if *seen != s || ret != out {
                return None;
            }
            match s {
                None => Some(None),
                Some(_) => Some(*out),
            }
        }
        HOp::CondRemove { v } => {
            if s == Some(*v) {
                Some(None)
            } else {
                Some(s)
            }
        }
        HOp::ForceRemove => Some(None),
        HOp::SetInsert { new, ret } => {
            if *ret != s.is_none() {
                None
            } else if *ret {
                Some(Some(*new))
            } else {
                Some(s)
            }
        }
        HOp::SetRemove { ret } => {
            if *ret == s.is_some() {
                Some(None)
            } else {
                None
            }
        }
        // (the "does nothing" outcome; the removing outcome is added by the search)
        HOp::MaybeRemove { .. } | HOp::MaybeForceRemove => Some(s),
    }
}

/// searches abandoned because the history was too long or the search too large (the history then
/// counts as explained: the checker never raises an alarm it has not established)
pub static ABANDONED: std::sync::atomic::AtomicU64 = std::sync::atomic::AtomicU64::new(0);
const NODE_BUDGET: usize = 3_000_000;

/// Is the sub-history of one key linearizable from `init`?  Returns the final state of the first
/// witness found, or an explanation.
pub fn check_key(init: Option<u64>, ents: &[HEnt]) -> Result<Vec<Option<u64>>, String> {
    let n = ents.len();
    if n > 127 {
        ABANDONED.fetch_add(1, std::sync::atomic::Ordering::Relaxed);
        return Ok(vec![]);
    }
    let full: u128 = (1u128 << n) - 1;
    // candidates are tried in order of their responses (the order in which the calls returned is
    // usually close to a witness)
    let mut order: Vec<usize> = (0..n).collect();
    order.sort_by_key(|i| std::cmp::Reverse(ents[*i].resp));
    let mut seen: HashSet<(u128, Option<u64>)> = HashSet::new();
    // iterative DFS
    let mut stack: Vec<(u128, Option<u64>)> = vec![(0, init)];
    let mut best_done = 0u32;
    let mut best_state: (u128, Option<u64>) = (0, init);
    while let Some((mut done, st)) = stack.pop() {
        // lookups whose result matches the current state are placed at once: they do not change
        // the state, and an operation that may be placed next (nothing pending returned before it
        // was invoked) can be moved to the front of any witness that continues from here
        loop {
            let mut min_resp = u64::MAX;
            for (i, e) in ents.iter().enumerate() {
                if done >> i & 1 == 0 && e.resp < min_resp {
                    min_resp = e.resp;
                }
            }
            let mut progressed = false;
            for (i, e) in ents.iter().enumerate() {
                if done >> i & 1 == 0 && e.inv <= min_resp && !is_write(&e.op) && apply(&e.op, st) == Some(st) {
                    done |= 1 << i;
                    progressed = true;
                }
            }
            if !progressed {
                break;
            }
        }
        if !seen.insert((done, st)) {
            continue;
        }
        if seen.len() > NODE_BUDGET {
            ABANDONED.fetch_add(1, std::sync::atomic::Ordering::Relaxed);
            return Ok(vec![]);
        }
        if done.count_ones() > best_done {
            best_done = done.count_ones();
            best_state = (done, st);
        }
        if done == full {
            return Ok(vec![st]);
        }
        // earliest response among the pending operations
        let mut min_resp = u64::MAX;
        for (i, e) in ents.iter().enumerate() {
            if done >> i & 1 == 0 && e.resp < min_resp {
                min_resp = e.resp;
            }
        }
        for &i in &order {
            let e = &ents[i];
            if done >> i & 1 == 1 {
                continue;
            }
            // e may be linearized next only if no pending operation completed before e was invoked
            if e.inv > min_resp {
                continue;
            }
            if let HOp::MaybeRemove { v } = &e.op {
                if st == Some(*v) {
                    stack.push((done | 1 << i, None));
                }
            }
            if matches!(e.op, HOp::MaybeForceRemove) && st.is_some() {
                stack.push((done | 1 << i, None));
            }
            if let Some(ns) = apply(&e.op, st) {
                stack.push((done | 1 << i, ns));
            }
        }
    }
    let pending: Vec<String> = ents.iter().enumerate().filter(|(i, _)| best_state.0 >> i & 1 == 0).map(|(_, e)| format!("T{}[{}..{}] {:?}", e.thread, e.inv, e.resp, e.op)).collect();
    Err(format!(
        "no sequential order explains the results: initial state {:?}; the longest consistent prefix covers {} of {} operations and leaves the cell at {:?}; operations that cannot be placed: {}",
        init,
        best_done,
        n,
        best_state.1,
        pending.join(", ")
    ))
}

/// group a history by key and check each key; `init(key)` is the value before the concurrent part
pub fn check_history(ents: &[HEnt], init: impl Fn(u32) -> Option<u64>) -> Result<u64, String> {
    let mut keys: Vec<u32> = ents.iter().map(|e| e.key).collect();
    keys.sort();
    keys.dedup();
    let mut overlapping = 0u64;
    for k in keys {
        let sub: Vec<HEnt> = ents.iter().filter(|e| e.key == k).cloned().collect();
        check_key(init(k), &sub).map_err(|e| format!("key {}: {}", k, e))?;
        // count keys on which two operations of different threads overlapped, one of them a write
        'o: for a in &sub {
            for b in &sub {
                if a.thread != b.thread && a.inv < b.resp && b.inv < a.resp && (is_write(&a.op) || is_write(&b.op)) {
                    overlapping += 1;
                    break 'o;
                }
            }
        }
    }
    Ok(overlapping)
}

pub fn is_write(op: &HOp) -> bool {
    !matches!(op, HOp::Get { .. } | HOp::Contains { .. })
}

#[cfg(test)]
mod tests {
    use super::*;
    fn e(t: u8, inv: u64, resp: u64, op: HOp) -> HEnt {
        HEnt { thread: t, inv, resp, key: 0, op }
    }
    #[test]
    fn simple() {
        // insert(1) || get -> 1 or None both fine
        let h = vec![e(0, 0, 10, HOp::Insert { new: 1, ret: None }), e(1, 2, 5, HOp::Get { ret: Some(1) })];
        assert!(check_key(None, &h).is_ok());
        // get after insert completed must see it
        let h = vec![e(0, 0, 10, HOp::Insert { new: 1, ret: None }), e(1, 12, 15, HOp::Get { ret: None })];
        assert!(check_key(None, &h).is_err());
        // lost update: two increments both saw 7
        let h = vec![
            e(0, 0, 10, HOp::Compute { seen: Some(7), out: Some(8), ret: Some(8) }),
            e(1, 2, 9, HOp::Compute { seen: Some(7), out: Some(9), ret: Some(9) }),
        ];
        assert!(check_key(Some(7), &h).is_err());
    }
}
