//! Shared driver pieces: shard context, result records, the proptest driver, hashing.
use proptest::strategy::{Strategy, ValueTree};
use proptest::test_runner::{Config, RngSeed, TestCaseError, TestError, TestRunner};
use serde::{Deserialize, Serialize};
use serde_json::Value;
use std::cell::RefCell;
use std::collections::{BTreeMap, BTreeSet};

#[derive(Clone, Copy, Debug, PartialEq, Eq)]
pub enum Tier {
    Quick,
    Thorough,
}

#[derive(Clone, Debug)]
pub struct Ctx {
    pub prop: String,
    pub tier: Tier,
    pub seed: u64,
    pub shard: usize,
    pub nshards: usize,
    pub inflight: Option<std::path::PathBuf>,
}

impl Ctx {
    pub fn shard_seed(&self, salt: u64) -> u64 {
        splitmix(self.seed ^ splitmix(self.shard as u64 + 1) ^ splitmix(salt.wrapping_mul(0x9e37)))
    }
    /// share of `total` work items that belongs to this shard
    pub fn share(&self, total: u64) -> u64 {
        let base = total / self.nshards as u64;
        let extra = if (self.shard as u64) < total % self.nshards as u64 { 1 } else { 0 };
        base + extra
    }
    pub fn mark_inflight(&self, sub: &str, case_json: &str) {
        if let Some(p) = &self.inflight {
            let _ = std::fs::write(p, format!("{{\"sub\":{:?},\"case\":{}}}", sub, case_json));
        }
    }
    pub fn by_tier(&self, quick: u64, thorough: u64) -> u64 {
        match self.tier {
            Tier::Quick => quick,
            Tier::Thorough => thorough,
        }
    }
}

pub fn splitmix(mut z: u64) -> u64 {
    z = z.wrapping_add(0x9e37_79b9_7f4a_7c15);
    z = (z ^ (z >> 30)).wrapping_mul(0xbf58_476d_1ce4_e5b9);
    z = (z ^ (z >> 27)).wrapping_mul(0x94d0_49bb_1331_11eb);
    z ^ (z >> 31)
}

pub fn hash_str(s: &str) -> u64 {
    let mut h: u64 = 0xcbf2_9ce4_8422_2325;
    for b in s.as_bytes() {
        h ^= *b as u64;
        h = h.wrapping_mul(0x0000_0100_0000_01b3);
    }
    splitmix(h)
}

#[derive(Clone, Debug, Serialize, Deserialize)]
pub struct Viol {
    pub prop: String,
    pub msg: String,
    /// {"sub": <sub-check name>, "case": <the failing case>}
    pub replay: Value,
}

#[derive(Clone, Debug, Default, Serialize, Deserialize)]
pub struct ShardOut {
    pub evaluations: u64,
    pub nontrivial: BTreeSet<u64>,
    pub samples: Vec<Value>,
    pub classes: BTreeMap<String, u64>,
    pub violations: Vec<Viol>,
    pub notes: Vec<String>,
    pub exhaustive_parts: Vec<String>,
}

impl ShardOut {
    pub fn class(&mut self, name: &str, n: u64) {
        if n > 0 {
            *self.classes.entry(name.to_string()).or_insert(0) += n;
        }
    }
    pub fn sample(&mut self, v: Value, max: usize) {
        if self.samples.len() < max {
            self.samples.push(v);
        }
    }
    pub fn merge(&mut self, o: ShardOut) {
        self.evaluations += o.evaluations;
        self.nontrivial.extend(o.nontrivial);
        for s in o.samples {
            if self.samples.len() < 6 {
                self.samples.push(s);
            }
        }
        for (k, v) in o.classes {
            *self.classes.entry(k).or_insert(0) += v;
        }
        self.violations.extend(o.violations);
        for n in o.notes {
            if !self.notes.contains(&n) {
                self.notes.push(n);
            }
        }
        for n in o.exhaustive_parts {
            if !self.exhaustive_parts.contains(&n) {
                self.exhaustive_parts.push(n);
            }
        }
    }
}

/// what a single case tells the driver
#[derive(Clone, Debug, Default)]
pub struct CaseInfo {
    pub nontrivial: bool,
    pub classes: Vec<(&'static str, u64)>,
    /// executions this case stands for (schedules, fault indices); 0 is counted as 1
    pub evaluations: u64,
    /// hashes of the distinct non-trivial executions inside this case (combined with the case hash);
    /// empty = the case itself is the unit
    pub sub_hashes: Vec<u64>,
}

#[derive(Clone, Debug)]
pub struct CaseFail {
    pub prop: String,
    pub msg: String,
}

/// Generate `cases` values from `strategy`, run `f` on each, shrink the first failure.
/// Everything random comes from the proptest RNG seeded with `seed`.
pub fn drive<S, F>(ctx: &Ctx, sub: &str, seed: u64, cases: u32, strategy: S, out: &mut ShardOut, f: F)
where
    S: Strategy,
    S::Value: Serialize + Clone + std::fmt::Debug,
    F: Fn(&S::Value) -> Result<CaseInfo, CaseFail>,
{
    drive_n(ctx, sub, seed, cases, 4000, strategy, out, f)
}

pub fn drive_n<S, F>(ctx: &Ctx, sub: &str, seed: u64, cases: u32, shrink_iters: u32, strategy: S, out: &mut ShardOut, f: F)
where
    S: Strategy,
    S::Value: Serialize + Clone + std::fmt::Debug,
    F: Fn(&S::Value) -> Result<CaseInfo, CaseFail>,
{
    if cases == 0 {
        return;
    }
    // debugging aid: FVH_ONLY=<sub>[,<sub>...] restricts a run to the named sub-checks
    if let Ok(only) = std::env::var("FVH_ONLY") {
        if !only.split(',').any(|x| x == sub) {
            return;
        }
    }
    let cfg = Config {
        cases,
        failure_persistence: None,
        rng_seed: RngSeed::Fixed(seed),
        max_shrink_iters: shrink_iters,
        // shrinking only improves the replay file, never the verdict: time-box it so that a check
        // that has found a violation reports it well inside the quick ceiling
        max_shrink_time: match ctx.tier {
            Tier::Quick => 90_000,
            Tier::Thorough => 600_000,
        },
        max_global_rejects: 1,
        ..Config::default()
    };
    let mut runner = TestRunner::new(cfg);
    struct St {
        failed: bool,
        last_fail: Option<CaseFail>,
        acc: ShardOut,
    }
    let st = RefCell::new(St { failed: false, last_fail: None, acc: ShardOut::default() });
    let res = runner.run(&strategy, |case| {
        let js = serde_json::to_string(&case).unwrap();
        ctx.mark_inflight(sub, &js);
        let r = f(&case);
        let mut s = st.borrow_mut();
        match r {
            Ok(info) => {
                if !s.failed {
                    s.acc.evaluations += info.evaluations.max(1);
                    for (c, n) in &info.classes {
                        s.acc.class(c, *n);
                    }
                    if info.nontrivial {
                        let h = hash_str(&js);
                        for sh in info.sub_hashes.iter().take(256) {
                            s.acc.nontrivial.insert(splitmix(h ^ *sh));
                        }
                        if (s.acc.nontrivial.insert(h) || !info.sub_hashes.is_empty()) && s.acc.samples.len() < 3 {
                            let v: Value = serde_json::from_str(&js).unwrap();
                            s.acc.samples.push(serde_json::json!({"sub": sub, "case": v}));
                        }
                    }
                }
                Ok(())
            }
            Err(cf) => {
                if !s.failed {
                    s.acc.evaluations += 1;
                }
                s.failed = true;
                let m = cf.msg.clone();
                s.last_fail = Some(cf);
                Err(TestCaseError::fail(m))
            }
        }
    });
    let mut s = st.into_inner();
    if let Err(e) = res {
        match e {
            TestError::Fail(reason, value) => {
                // re-run the minimal case to get the message that belongs to it
                let (prop, msg) = match f(&value) {
                    Err(cf) => (cf.prop, cf.msg),
                    Ok(_) => match s.last_fail.take() {
                        Some(cf) => (cf.prop, format!("{} (minimal case did not fail again on re-run: {})", cf.msg, reason)),
                        None => (ctx.prop.clone(), reason.to_string()),
                    },
                };
                s.acc.violations.push(Viol {
                    prop,
                    msg,
                    replay: serde_json::json!({"sub": sub, "case": serde_json::to_value(&value).unwrap()}),
                });
            }
            TestError::Abort(r) => {
                s.acc.notes.push(format!("{}: generator aborted: {}", sub, r));
            }
        }
    }
    out.merge(s.acc);
}

/// produce one value from a strategy deterministically (for replay-independent sampling)
pub fn sample_one<S: Strategy>(strategy: &S, seed: u64) -> S::Value {
    let cfg = Config { rng_seed: RngSeed::Fixed(seed), failure_persistence: None, ..Config::default() };
    let mut runner = TestRunner::new(cfg);
    strategy.new_tree(&mut runner).unwrap().current()
}
