//! fvh — flurry verification harness.  See /verif/DESIGN.md.
#![allow(clippy::type_complexity, clippy::too_many_arguments, dead_code, static_mut_refs)]


use fvh::runner::{self, Ctx, ShardOut, Tier, Viol};
use fvh::{alloc, checks, verif_dir};
use serde_json::{json, Value};
use std::io::Write;
use std::path::{Path, PathBuf};
use std::process::{Command, Stdio};
use std::time::{Duration, Instant};

#[global_allocator]
static GLOBAL: alloc::Quarantine = alloc::Quarantine;

fn usage() -> ! {
    eprintln!("usage: fvh run <prop> --tier quick|thorough [--seed N] [--jobs N]\n       fvh shard <prop> --tier T --seed N --shard I --nshards N --out F --inflight F\n       fvh replay <prop> <file>\n       fvh list");
    std::process::exit(2)
}

fn arg_val(args: &[String], name: &str) -> Option<String> {
    args.iter().position(|a| a == name).and_then(|i| args.get(i + 1).cloned())
}

fn quiet_panics() {
    std::panic::set_hook(Box::new(|_| {}));
}

fn main() {
    let args: Vec<String> = std::env::args().collect();
    if args.len() < 2 {
        usage();
    }
    match args[1].as_str() {
        "capprobe" => {
            // child of the C14 capacity probes: `fvh capprobe <how> <c>`
            let how = args.get(2).cloned().unwrap_or_default();
            let c: usize = args.get(3).and_then(|s| s.parse().ok()).unwrap_or(0);
            std::panic::set_hook(Box::new(|_| {}));
            fvh::alloc::BIG_TRAP.store(true, std::sync::atomic::Ordering::SeqCst);
            let r = std::panic::catch_unwind(|| fvh::checks::seqchecks::capprobe_child(&how, c));
            match r {
                Ok(n) => println!("LEN {}", n),
                Err(_) => println!("PANIC"),
            }
        }
        "list" => {
            for p in checks::all() {
                println!("{}", p.id);
            }
        }
        "run" => {
            let prop = args.get(2).unwrap_or_else(|| usage()).clone();
            let tier = match arg_val(&args, "--tier").or_else(|| std::env::var("VERIF_TIER").ok()).as_deref() {
                Some("thorough") => Tier::Thorough,
                _ => Tier::Quick,
            };
            let seed = arg_val(&args, "--seed").or_else(|| std::env::var("VERIF_SEED").ok()).and_then(|s| s.parse::<u64>().ok()).unwrap_or(1);
            let jobs = arg_val(&args, "--jobs").and_then(|s| s.parse().ok()).unwrap_or(16usize);
            std::process::exit(parent(&prop, tier, seed, jobs));
        }
        "shard" => {
            quiet_panics();
            let prop = args.get(2).unwrap_or_else(|| usage()).clone();
            let def = checks::find(&prop).unwrap_or_else(|| usage());
            let tier = if arg_val(&args, "--tier").as_deref() == Some("thorough") { Tier::Thorough } else { Tier::Quick };
            let ctx = Ctx {
                prop: prop.clone(),
                tier,
                seed: arg_val(&args, "--seed").and_then(|s| s.parse().ok()).unwrap_or(1),
                shard: arg_val(&args, "--shard").and_then(|s| s.parse().ok()).unwrap_or(0),
                nshards: arg_val(&args, "--nshards").and_then(|s| s.parse().ok()).unwrap_or(1),
                inflight: arg_val(&args, "--inflight").map(PathBuf::from),
            };
            let mut out = ShardOut::default();
            (def.run_shard)(&ctx, &mut out);
            let outp = arg_val(&args, "--out").unwrap_or_else(|| usage());
            std::fs::write(&outp, serde_json::to_vec(&out).unwrap()).unwrap();
            if let Some(p) = &ctx.inflight {
                let _ = std::fs::remove_file(p);
            }
        }
        "replay" => {
            quiet_panics();
            let prop = args.get(2).unwrap_or_else(|| usage()).clone();
            let file = args.get(3).unwrap_or_else(|| usage()).clone();
            let def = checks::find(&prop).unwrap_or_else(|| usage());
            let v: Value = match std::fs::read(&file).ok().and_then(|b| serde_json::from_slice(&b).ok()) {
                Some(v) => v,
                None => {
                    eprintln!("cannot read replay file {}", file);
                    std::process::exit(2)
                }
            };
            let sub = v.get("sub").and_then(|s| s.as_str()).unwrap_or("").to_string();
            let case = v.get("case").cloned().unwrap_or(Value::Null);
            match (def.replay)(&sub, &case) {
                Ok(()) => {
                    println!("replay {} passed", file);
                }
                Err(cf) => {
                    println!("{}", cf.msg);
                    println!("VIOLATION property={} replay={}", prop, file);
                    std::process::exit(1);
                }
            }
        }
        _ => usage(),
    }
}

struct Child {
    idx: usize,
    proc: std::process::Child,
    out: PathBuf,
    inflight: PathBuf,
    /// the binary this shard runs (the main build, or the build without debug assertions)
    exe: PathBuf,
    nd: bool,
}

/// properties whose generators are also run against flurry compiled WITHOUT debug assertions and
/// overflow checks (four extra shards with their own seeds): a change can hide behind
/// `debug_assert!`, `cfg(debug_assertions)` or wrapping arithmetic
const ND_PROPS: [&str; 8] = ["C01", "C02", "C03", "C04", "C05", "C10", "C13", "C14"];
const ND_SHARDS: usize = 4;

/// what a crashed replay printed last on stderr (panic message, allocator abort text, ...)
fn stderr_tail_of(file: &Path) -> String {
    let p = file.with_extension("stderr");
    let s = std::fs::read(&p).map(|b| String::from_utf8_lossy(&b).into_owned()).unwrap_or_default();
    let _ = std::fs::remove_file(&p);
    let interesting: Vec<&str> = s.lines().filter(|l| !l.trim().is_empty() && !l.trim_start().starts_with("at ") && !l.contains("RUST_BACKTRACE") && !l.trim_start().chars().next().map_or(false, |c| c.is_ascii_digit())).collect();
    let tail: Vec<&str> = interesting.iter().rev().take(3).rev().copied().collect();
    let mut t = tail.join(" | ");
    t.truncate(500);
    t
}

thread_local! {
    static LAST_STDERR: std::cell::RefCell<String> = std::cell::RefCell::new(String::new());
}
fn stderr_tail() -> String {
    LAST_STDERR.with(|l| l.borrow().clone())
}

fn run_replay_file(exe: &Path, prop: &str, file: &Path, timeout: Duration) -> (Option<i32>, String) {
    let r = run_replay_file_inner(exe, prop, file, timeout);
    let t = stderr_tail_of(file);
    LAST_STDERR.with(|l| *l.borrow_mut() = t);
    r
}

fn run_replay_file_inner(exe: &Path, prop: &str, file: &Path, timeout: Duration) -> (Option<i32>, String) {
    let errf = std::fs::File::create(file.with_extension("stderr")).map(Stdio::from).unwrap_or_else(|_| Stdio::null());
    let mut c = match Command::new(exe).arg("replay").arg(prop).arg(file).stdout(Stdio::piped()).stderr(errf).spawn() {
        Ok(c) => c,
        Err(e) => return (Some(2), format!("spawn failed: {}", e)),
    };
    let t0 = Instant::now();
    loop {
        match c.try_wait() {
            Ok(Some(st)) => {
                let mut s = String::new();
                if let Some(mut o) = c.stdout.take() {
                    use std::io::Read;
                    let _ = o.read_to_string(&mut s);
                }
                return (st.code(), s);
            }
            Ok(None) => {
                if t0.elapsed() > timeout {
                    let _ = c.kill();
                    let _ = c.wait();
                    return (Some(2), "replay timed out".into());
                }
                std::thread::sleep(Duration::from_millis(5));
            }
            Err(e) => return (Some(2), format!("wait failed: {}", e)),
        }
    }
}

/// every JSON array below `case` whose elements can be dropped without making the case ill-formed
fn list_paths(v: &Value, path: &mut Vec<String>, out: &mut Vec<Vec<String>>) {
    match v {
        Value::Object(m) => {
            for (k, x) in m {
                path.push(k.clone());
                if let Value::Array(a) = x {
                    let droppable = ["ops", "prefix", "tail", "script", "hot_init", "items", "pre", "toks"].contains(&k.as_str());
                    if droppable && !a.is_empty() {
                        out.push(path.clone());
                    }
                    if k == "threads" {
                        for (i, t) in a.iter().enumerate() {
                            if t.as_array().map_or(false, |t| t.len() > 1) {
                                let mut p2 = path.clone();
                                p2.push(i.to_string());
                                out.push(p2);
                            }
                        }
                    }
                }
                list_paths(x, path, out);
                path.pop();
            }
        }
        Value::Array(a) => {
            for (i, x) in a.iter().enumerate() {
                path.push(i.to_string());
                list_paths(x, path, out);
                path.pop();
            }
        }
        _ => {}
    }
}

fn at_mut<'a>(v: &'a mut Value, path: &[String]) -> Option<&'a mut Value> {
    let mut cur = v;
    for k in path {
        cur = match cur {
            Value::Object(m) => m.get_mut(k)?,
            Value::Array(a) => a.get_mut(k.parse::<usize>().ok()?)?,
            _ => return None,
        };
    }
    Some(cur)
}

/// Delta-debug a case that kills the process: drop list elements as long as a fresh process still
/// dies (or reports a violation) on it.  Bounded by `budget` replays.
fn shrink_crash(exe: &Path, prop: &str, file: &Path, budget: usize) {
    let mut doc: Value = match std::fs::read(file).ok().and_then(|b| serde_json::from_slice(&b).ok()) {
        Some(v) => v,
        None => return,
    };
    let tmp = file.with_extension("shrink.json");
    let mut runs = 0usize;
    let t0 = Instant::now();
    let still_fails = |cand: &Value, runs: &mut usize| -> bool {
        *runs += 1;
        if std::fs::write(&tmp, serde_json::to_vec(cand).unwrap()).is_err() {
            return false;
        }
        let (code, _) = run_replay_file(exe, prop, &tmp, Duration::from_secs(60));
        !matches!(code, Some(0) | Some(2))
    };
    let mut progress = true;
    while progress && runs < budget && t0.elapsed() < Duration::from_secs(240) {
        progress = false;
        let mut paths = Vec::new();
        list_paths(&doc, &mut Vec::new(), &mut paths);
        for p in paths {
            let len = match at_mut(&mut doc, &p).and_then(|v| v.as_array().map(|a| a.len())) {
                Some(l) => l,
                None => continue,
            };
            // halves first, then single elements from the back
            let mut chunk = (len / 2).max(1);
            while chunk >= 1 && runs < budget {
                let mut i = 0;
                loop {
                    let cur_len = at_mut(&mut doc, &p).and_then(|v| v.as_array().map(|a| a.len())).unwrap_or(0);
                    if i >= cur_len || cur_len <= if p.iter().any(|k| k == "threads") { 1 } else { 0 } || runs >= budget {
                        break;
                    }
                    let mut cand = doc.clone();
                    if let Some(Value::Array(a)) = at_mut(&mut cand, &p) {
                        let end = (i + chunk).min(a.len());
                        a.drain(i..end);
                    }
                    if still_fails(&cand, &mut runs) {
                        doc = cand;
                        progress = true;
                    } else {
                        i += chunk;
                    }
                }
                if chunk == 1 {
                    break;
                }
                chunk /= 2;
            }
        }
    }
    let _ = std::fs::remove_file(&tmp);
    let _ = std::fs::write(file, serde_json::to_string_pretty(&doc).unwrap());
}

fn parent(prop: &str, tier: Tier, seed: u64, jobs: usize) -> i32 {
    let t0 = Instant::now();
    let def = match checks::find(prop) {
        Some(d) => d,
        None => {
            eprintln!("unknown property {}", prop);
            return 2;
        }
    };
    let vd = verif_dir();
    let exe = std::env::current_exe().unwrap();
    let tmp = vd.join("harness/target/run").join(format!("{}-{}", prop, std::process::id()));
    let _ = std::fs::create_dir_all(&tmp);
    let found_dir = vd.join("replays/found");
    let _ = std::fs::create_dir_all(&found_dir);
    let tier_s = if tier == Tier::Quick { "quick" } else { "thorough" };
    let mut violations: Vec<(String, String, PathBuf)> = Vec::new(); // (prop, msg, replay path)
    let mut inconclusive: Vec<String> = Vec::new();
    let mut replayed = 0u64;

    // 1. committed replay files (the failing inputs of repaired findings and of seeded changes) first
    let rdir = vd.join("replays").join(prop);
    let mut files: Vec<PathBuf> = std::fs::read_dir(&rdir).map(|d| d.filter_map(|e| e.ok()).map(|e| e.path()).filter(|p| p.extension().map_or(false, |x| x == "json")).collect()).unwrap_or_default();
    files.sort();
    for f in &files {
        let (code, outp) = run_replay_file(&exe, prop, f, Duration::from_secs(120));
        replayed += 1;
        match code {
            Some(0) => {}
            Some(1) => violations.push((prop.to_string(), outp.lines().next().unwrap_or("").to_string(), f.clone())),
            Some(2) => inconclusive.push(format!("replay {} inconclusive: {}", f.display(), outp.trim())),
            other => violations.push((prop.to_string(), format!("replay crashed (exit {:?}) — memory-unsafe behaviour or abort in safe code", other), f.clone())),
        }
    }

    // 2. shards
    let nshards = (def.shards)(tier).max(1);
    let nd_exe: Option<PathBuf> = std::env::var_os("FVH_ND_BIN").map(PathBuf::from).filter(|p| p.exists() && ND_PROPS.contains(&prop) && nshards >= ND_SHARDS);
    let nd_extra = if nd_exe.is_some() { ND_SHARDS } else { 0 };
    let mut pending: Vec<usize> = (0..nshards + nd_extra).rev().collect();
    let mut running: Vec<Child> = Vec::new();
    let mut merged = ShardOut::default();
    let mut merged_nd = ShardOut::default();
    let watchdog = Duration::from_secs((def.watchdog)(tier));
    let mut timed_out = false;
    while !pending.is_empty() || !running.is_empty() {
        while running.len() < jobs && !pending.is_empty() {
            let i = pending.pop().unwrap();
            let out = tmp.join(format!("shard{}.json", i));
            let inflight = tmp.join(format!("shard{}.inflight", i));
            let _ = std::fs::remove_file(&out);
            let nd = i >= nshards;
            let this_exe = if nd { nd_exe.clone().unwrap() } else { exe.clone() };
            let (sidx, sseed) = if nd { (i - nshards, seed.wrapping_add(7777)) } else { (i, seed) };
            let proc = Command::new(&this_exe)
                // (an ND shard takes half the share of a regular shard)
                .args(["shard", prop, "--tier", tier_s, "--seed", &sseed.to_string(), "--shard", &sidx.to_string(), "--nshards", &(if nd { nshards * 2 } else { nshards }).to_string()])
                .arg("--out")
                .arg(&out)
                .arg("--inflight")
                .arg(&inflight)
                .stdout(Stdio::null())
                .stderr(Stdio::null())
                .spawn()
                .expect("spawn shard");
            running.push(Child { idx: i, proc, out, inflight, exe: this_exe, nd });
        }
        let mut k = 0;
        while k < running.len() {
            match running[k].proc.try_wait() {
                Ok(Some(st)) => {
                    let c = running.remove(k);
                    let ok = st.success() && c.out.exists();
                    if ok {
                        match std::fs::read(&c.out).ok().and_then(|b| serde_json::from_slice::<ShardOut>(&b).ok()) {
                            Some(o) => {
                                if c.nd {
                                    merged_nd.merge(o)
                                } else {
                                    merged.merge(o)
                                }
                            }
                            None => inconclusive.push(format!("shard {} wrote an unreadable result", c.idx)),
                        }
                    } else {
                        // crashed: the in-flight case is the suspect
                        match std::fs::read(&c.inflight) {
                            Ok(b) => {
                                let h = runner::hash_str(&String::from_utf8_lossy(&b));
                                let rp = found_dir.join(format!("{}-crash-{:016x}.json", prop, h));
                                let _ = std::fs::write(&rp, &b);
                                let exe = c.exe.clone();
                                let (code, outp) = run_replay_file(&exe, prop, &rp, Duration::from_secs(300));
                                match code {
                                    Some(0) => inconclusive.push(format!("shard {} died ({:?}) but its in-flight case passes on replay ({})", c.idx, st, rp.display())),
                                    Some(2) => inconclusive.push(format!("shard {} died ({:?}); replay inconclusive: {}", c.idx, st, outp.trim())),
                                    Some(1) => violations.push((prop.to_string(), outp.lines().next().unwrap_or("").to_string(), rp)),
                                    other => {
                                        // minimise the crashing case (bounded), keeping "a fresh process dies on it"
                                        if violations.len() < 2 {
                                            shrink_crash(&exe, prop, &rp, 150);
                                        }
                                        let (_, _) = run_replay_file(&exe, prop, &rp, Duration::from_secs(300));
                                        let tail = stderr_tail();
                                        violations.push((prop.to_string(), format!("process died ({:?}) while running this case, and dies again on replay ({:?}): crash in safe code{}", st, other, if tail.is_empty() { String::new() } else { format!(" [last words: {}]", tail) }), rp))
                                    }
                                }
                            }
                            Err(_) => inconclusive.push(format!("shard {} died ({:?}) without an in-flight case", c.idx, st)),
                        }
                    }
                }
                Ok(None) => k += 1,
                Err(_) => k += 1,
            }
        }
        if t0.elapsed() > watchdog {
            for c in running.iter_mut() {
                let _ = c.proc.kill();
                let _ = c.proc.wait();
            }
            timed_out = true;
            break;
        }
        std::thread::sleep(Duration::from_millis(10));
    }
    if timed_out {
        inconclusive.push(format!("watchdog: not finished after {} s", watchdog.as_secs()));
    }

    // 3. violations found by shards: write replay files, confirm each once (with the binary that found it)
    for (from_nd, list) in [(false, merged.violations.clone()), (true, merged_nd.violations.clone())] {
        for Viol { prop: vp, msg, replay } in list {
            let js = serde_json::to_string_pretty(&replay).unwrap();
            let h = runner::hash_str(&js);
            let rp = found_dir.join(format!("{}-{:016x}.json", prop, h));
            let _ = std::fs::write(&rp, &js);
            let the_exe = if from_nd { nd_exe.clone().unwrap() } else { exe.clone() };
            let (code, outp) = run_replay_file(&the_exe, prop, &rp, Duration::from_secs(300));
            let msg = if from_nd { format!("{} [flurry built without debug assertions and overflow checks]", msg) } else { msg };
            match code {
                Some(0) => inconclusive.push(format!("a reported failure did not reproduce from its replay file {} ({})", rp.display(), msg)),
                Some(2) => inconclusive.push(format!("replay of {} inconclusive: {}", rp.display(), outp.trim())),
                _ => violations.push((vp, msg, rp)),
            }
        }
    }
    if nd_extra > 0 {
        let ev = merged_nd.evaluations;
        let nt = merged_nd.nontrivial.len() as u64;
        merged_nd.violations.clear();
        merged.merge(merged_nd);
        merged.class("evaluations_against_the_build_without_debug_assertions", ev);
        merged.class("nontrivial_cases_against_the_build_without_debug_assertions", nt);
    }

    // 4. evidence
    let wall = t0.elapsed().as_secs_f64();
    let exhaustive = !merged.exhaustive_parts.is_empty();
    let ev = json!({
        "property_id": prop,
        "tier": tier_s,
        "seed": seed,
        "level": def.level,
        "coverage": {
            "evaluations": merged.evaluations + replayed,
            "distinct_nontrivial": merged.nontrivial.len(),
            "rule": def.rule,
            "samples": merged.samples,
            "classes": merged.classes,
            "exhaustive": exhaustive,
            "exhaustive_parts": merged.exhaustive_parts,
            "replay_files_run": replayed,
            "shards": nshards,
            "notes": merged.notes,
            "inconclusive": inconclusive,
        },
        "assumptions": def.assumptions,
        "wall_s": (wall * 100.0).round() / 100.0,
        "violations": violations.len(),
    });
    let edir = vd.join("evidence");
    let _ = std::fs::create_dir_all(&edir);
    let ep = edir.join(format!("{}.json", prop));
    let mut f = std::fs::File::create(&ep).expect("evidence file");
    f.write_all(serde_json::to_string_pretty(&ev).unwrap().as_bytes()).unwrap();
    let _ = std::fs::remove_dir_all(&tmp);

    println!(
        "{} {}: {} evaluations, {} distinct non-trivial, {} replay files, {} shards, {:.1}s",
        prop,
        tier_s,
        merged.evaluations + replayed,
        merged.nontrivial.len(),
        replayed,
        nshards,
        wall
    );
    for (k, v) in &merged.classes {
        println!("  class {:<40} {}", k, v);
    }
    for n in &merged.notes {
        println!("  note: {}", n);
    }
    if !violations.is_empty() {
        for (vp, msg, rp) in &violations {
            println!("  {}", msg);
            println!("VIOLATION property={} replay={}", vp_or(prop, vp), rp.display());
        }
        return 1;
    }
    if !inconclusive.is_empty() {
        for i in &inconclusive {
            println!("INCONCLUSIVE: {}", i);
        }
        return 2;
    }
    if merged.evaluations == 0 {
        println!("INCONCLUSIVE: nothing was evaluated");
        return 2;
    }
    0
}

/// a failure is attributed to the property the command was asked to decide ("ANY" = a crash or
/// panic, which every property's check treats as its own violation)
fn vp_or<'a>(asked: &'a str, _oracle: &'a str) -> &'a str {
    asked
}
