//! Registry of the per-property checks.
use crate::runner::Tier;
use crate::PropDef;

pub mod bulk;
pub mod concchecks;
pub mod concchecks2;
pub mod misc;
pub mod seqchecks;
pub mod typecheck;

pub fn all() -> Vec<PropDef> {
    let mut v = Vec::new();
    v.extend(seqchecks::defs());
    v.extend(concchecks::defs());
    v.extend(concchecks2::defs());
    v.extend(misc::defs());
    v.extend(bulk::defs());
    v.extend(typecheck::defs());
    v
}

pub fn find(id: &str) -> Option<PropDef> {
    all().into_iter().find(|p| p.id == id)
}

pub fn sixteen(_: Tier) -> usize {
    16
}
