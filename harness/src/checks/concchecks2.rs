//! C10 (cooperative resize), C12 (reads never block), C07 (weakly consistent iterators),
//! C03 (no dangling references / touch after free), C15 (happens-before).
use super::concchecks::{base_judge, budget_for, history_of, ConcCheck, JudgeErr, NO_PROBE};
use crate::conc::*;
use crate::lin::HOp;
use crate::model::*;
use crate::runner::*;
use crate::sched::{Ev, Pool, ProbeCtx, ProbeFn, ProbeSel};
use crate::seq::FMap;
use crate::types::*;
use crate::PropDef;
use proptest::prelude::*;
use serde::{Deserialize, Serialize};
use serde_json::Value;
use std::collections::{BTreeMap, BTreeSet, HashSet};
use std::sync::{Arc, Mutex};

/* ------------------------------- value lifetimes ------------------------------- */

#[derive(Clone, Debug)]
pub struct Life {
    pub vid: u64,
    pub born_inv: u64,
    pub born_resp: u64,
    /// earliest invocation of an operation that may have displaced the value
    pub die_inv: u64,
    /// latest response of an operation that may have displaced it (u64::MAX = may live forever)
    pub die_resp: u64,
}

/// per key: every value it ever held, with the interval in which it was possibly / definitely present
pub fn lifetimes(out: &ConcOut) -> BTreeMap<u32, Vec<Life>> {
    let mut m: BTreeMap<u32, Vec<Life>> = BTreeMap::new();
    for (tag, e) in &out.init {
        m.entry(*tag).or_default().push(Life { vid: e.1, born_inv: 0, born_resp: 0, die_inv: u64::MAX, die_resp: u64::MAX });
    }
    let ents = history_of(out);
    for e in &ents {
        let new = match &e.op {
            HOp::Insert { new, .. } | HOp::Put { new } => Some(*new),
            HOp::TryInsert { new, ret: Ok(()) } => Some(*new),
            HOp::Compute { seen: Some(_), out: Some(n), .. } => Some(*n),
            _ => None,
        };
        if let Some(n) = new {
            m.entry(e.key).or_default().push(Life { vid: n, born_inv: e.inv, born_resp: e.resp, die_inv: u64::MAX, die_resp: u64::MAX });
        }
    }
    let final_vals: HashSet<u64> = out.fin.values().map(|e| e.1).collect();
    for e in &ents {
        if e.thread == 255 {
            continue;
        }
        let lives = match m.get_mut(&e.key) {
            Some(l) => l,
            None => continue,
        };
        let kill = |vid: Option<u64>, certain: bool, lives: &mut Vec<Life>| {
            for l in lives.iter_mut() {
                if vid.map_or(true, |v| v == l.vid) {
                    l.die_inv = l.die_inv.min(e.inv);
                    if certain {
                        l.die_resp = if l.die_resp == u64::MAX { e.resp } else { l.die_resp.max(e.resp) };
                    }
                }
            }
        };
        match &e.op {
            HOp::Insert { ret: Some(x), .. } | HOp::Remove { ret: Some(x) } => kill(Some(*x), true, lives),
            HOp::Compute { seen: Some(x), .. } => kill(Some(*x), true, lives),
            HOp::CondRemove { v } => kill(Some(*v), false, lives),
            HOp::ForceRemove => kill(None, false, lives),
            // a blind write displaces whatever the key held (which value that was is not observable)
            HOp::Put { new } => {
                for l in lives.iter_mut() {
                    if l.vid != *new {
                        l.die_inv = l.die_inv.min(e.inv);
                    }
                }
            }
            _ => {}
        }
    }
    // a value that is not final and has no certain displacer died in some uncertain removal: it cannot
    // outlive the end of the run
    for lives in m.values_mut() {
        for l in lives.iter_mut() {
            if l.die_resp == u64::MAX && !final_vals.contains(&l.vid) {
                l.die_resp = out.end_stamp;
            }
        }
    }
    // clears displace everything
    for (_, inv, resp) in &out.recs.clears {
        for lives in m.values_mut() {
            for l in lives.iter_mut() {
                if l.born_inv <= *resp {
                    l.die_inv = l.die_inv.min(*inv);
                }
            }
        }
    }
    m
}

fn possibly_present(l: &Life, from: u64, to: u64) -> bool {
    l.born_inv <= to && l.die_resp >= from
}
fn definitely_present(l: &Life, from: u64, to: u64) -> bool {
    l.born_resp < from && l.die_inv > to
}

/// keys touched by some operation whose interval overlaps [from, to] (retain / clear touch every key)
fn touched(out: &ConcOut, from: u64, to: u64) -> Option<BTreeSet<u32>> {
    for r in &out.recs.retains {
        if r.inv <= to && r.resp >= from {
            return None;
        }
    }
    for (_, inv, resp) in &out.recs.clears {
        if *inv <= to && *resp >= from {
            return None;
        }
    }
    let mut s = BTreeSet::new();
    for e in &out.recs.ops {
        if e.inv <= to && e.resp >= from && crate::lin::is_write(&e.op) {
            s.insert(e.key);
        }
    }
    Some(s)
}

/// weak-consistency predicate for one (possibly instantaneous) iteration over [from, to]
fn judge_iteration(out: &ConcOut, lives: &BTreeMap<u32, Vec<Life>>, kind: u8, from: u64, to: u64, yields: &[(u32, u64, u64)], who: &str) -> Result<(), String> {
    let has_clear = !out.recs.clears.is_empty();
    // (1) everything yielded was possibly in the map between creation and the yield
    for (tag, vid, at) in yields {
        if kind == 2 {
            if has_clear {
                continue;
            }
            if !lives.values().any(|ls| ls.iter().any(|l| l.vid == *vid && possibly_present(l, from, *at))) {
                return Err(format!("{} yielded value {} which was not in the map at any moment between the iterator's creation (step {}) and the yield (step {})", who, vid, from, at));
            }
            continue;
        }
        let ls = lives.get(tag).ok_or_else(|| format!("{} yielded key {} which was never in the map", who, tag))?;
        if kind == 0 && !has_clear && !ls.iter().any(|l| l.vid == *vid && possibly_present(l, from, *at)) {
            return Err(format!("{} yielded ({}, value {}) which was not in the map at any moment between the iterator's creation (step {}) and the yield (step {})", who, tag, vid, from, at));
        }
        if kind == 1 && !has_clear && !ls.iter().any(|l| possibly_present(l, from, *at)) {
            return Err(format!("{} yielded key {} which was not present at any moment between the iterator's creation (step {}) and the yield (step {})", who, tag, from, at));
        }
    }
    // (2) keys present and untouched for the whole iteration are yielded exactly once
    if kind != 2 {
        if let Some(t) = touched(out, from, to) {
            for (tag, ls) in lives {
                if t.contains(tag) {
                    continue;
                }
                if ls.iter().any(|l| definitely_present(l, from, to)) {
                    let n = yields.iter().filter(|y| y.0 == *tag).count();
                    if n != 1 {
                        return Err(format!("{} yielded key {} {} times although it was present and untouched from the iterator's creation (step {}) to its exhaustion (step {})", who, tag, n, from, to));
                    }
                }
            }
        }
    }
    // (3) termination bound
    // every insertion that began before the iteration ended may have contributed an entry (earlier
    // ones enlarged the map, overlapping ones may be seen or not)
    let inserts = out.recs.ops.iter().filter(|e| e.inv <= to && matches!(e.op, HOp::Insert { .. } | HOp::TryInsert { .. } | HOp::Put { .. })).count();
    let bound = 2 * (out.init.len() + inserts) + 16;
    if yields.len() > bound {
        return Err(format!("{} yielded {} items; with {} initial entries and {} earlier or overlapping inserts at most {} are possible", who, yields.len(), out.init.len(), inserts, bound));
    }
    Ok(())
}

fn judge_probe_obs(prog: &Prog, out: &ConcOut, asked: &str) -> Result<(), JudgeErr> {
    if out.probe_obs.is_empty() {
        return Ok(());
    }
    let lives = lifetimes(out);
    let has_clear = prog.has(|o| matches!(o, COp::Clear));
    for o in &out.probe_obs {
        match o {
            ProbeObs::Get { step, tag, ret } => {
                if has_clear {
                    continue;
                }
                let ls = lives.get(tag).cloned().unwrap_or_default();
                match ret {
                    Some(v) => {
                        if !ls.iter().any(|l| l.vid == *v && possibly_present(l, *step, *step)) {
                            return Err((asked.into(), format!("[{}] an isolated get({}) at step {} returned value {}, which the key cannot hold at that moment (lifetimes: {:?})", asked, tag, step, v, ls)));
                        }
                    }
                    None => {
                        if let Some(l) = ls.iter().find(|l| definitely_present(l, *step, *step)) {
                            if touched(out, *step, *step).map_or(false, |t| !t.contains(tag)) {
                                return Err((asked.into(), format!("[{}] an isolated get({}) at step {} found nothing although value {} was present and no operation on the key was in flight", asked, tag, step, l.vid)));
                            }
                        }
                    }
                }
            }
            ProbeObs::Iter { step, kind, yields } => {
                let y: Vec<(u32, u64, u64)> = yields.iter().map(|(t, v)| (*t, *v, *step)).collect();
                judge_iteration(out, &lives, *kind, *step, *step, &y, &format!("a complete iteration (kind {}) run in isolation at step {}", kind, step)).map_err(|m| (asked.to_string(), format!("[{}] {}", asked, m)))?;
            }
            ProbeObs::Len { .. } => {}
        }
    }
    Ok(())
}

/* ------------------------------- C10 ------------------------------- */

fn c10_judge(_prog: &Prog, out: &ConcOut) -> Result<(bool, Vec<(&'static str, u64)>), JudgeErr> {
    base_judge("C10", out)?;
    struct Gen {
        old: usize,
        n: usize,
        moved: HashSet<usize>,
        movers: HashSet<usize>,
    }
    let err = |m: String| -> JudgeErr { ("C10".into(), format!("[C10] {}", m)) };
    let mut active: Option<Gen> = None;
    let mut done: Vec<Gen> = Vec::new();
    for e in &out.events {
        if let Ev::Site { thread, step, kind, a, b } = *e {
            match kind {
                flurry::verif::EV_RESIZE_INIT => {
                    if let Some(g) = &active {
                        return Err(err(format!("step {}: T{} started a resize of a {}-bin table while the resize of the {}-bin table is still in progress ({} of {} bins migrated, not published): generations overlap", step, thread, b, g.n, g.moved.len(), g.n)));
                    }
                    if let Some(p) = done.last() {
                        if b != 2 * p.n {
                            return Err(err(format!("step {}: resize of a {}-bin table follows the resize of a {}-bin table (must be exactly twice the length)", step, b, p.n)));
                        }
                    }
                    active = Some(Gen { old: a, n: b, moved: HashSet::new(), movers: HashSet::new() });
                }
                flurry::verif::EV_BIN_MOVED => match &mut active {
                    Some(g) if g.old == a => {
                        if b >= g.n {
                            return Err(err(format!("step {}: T{} migrated bin {} of a {}-bin table", step, thread, b, g.n)));
                        }
                        if !g.moved.insert(b) {
                            return Err(err(format!("step {}: T{} migrated bin {} of the {}-bin table a second time", step, thread, b, g.n)));
                        }
                        g.movers.insert(thread);
                    }
                    _ => return Err(err(format!("step {}: T{} migrated bin {} of a table that is not being resized", step, thread, b))),
                },
                flurry::verif::EV_TABLE_PUBLISHED => match active.take() {
                    Some(g) if g.old == a => {
                        if g.moved.len() != g.n {
                            let missing: Vec<usize> = (0..g.n).filter(|i| !g.moved.contains(i)).take(8).collect();
                            return Err(err(format!("step {}: T{} published the new table although bins {:?} of the {}-bin table were never migrated", step, thread, missing, g.n)));
                        }
                        done.push(g);
                    }
                    _ => return Err(err(format!("step {}: T{} published a table although no resize of it is in progress (second publication?)", step, thread))),
                },
                _ => {}
            }
        }
    }
    if let Some(g) = &active {
        return Err(err(format!("all threads finished but the resize of the {}-bin table was never published ({} of {} bins migrated)", g.n, g.moved.len(), g.n)));
    }
    if out.table_len_before > 0 && out.table_len_after != out.table_len_before << done.len() {
        return Err(err(format!("{} resize(s) were published but the table went from {} to {} bins", done.len(), out.table_len_before, out.table_len_after)));
    }
    let multi = done.iter().filter(|g| g.movers.len() >= 2).count() as u64;
    Ok((
        multi > 0,
        vec![
            ("schedules_with_a_resize", (!done.is_empty()) as u64),
            ("schedules_with_a_multi_helper_resize", (multi > 0) as u64),
            ("schedules_with_two_or_more_generations", (done.len() >= 2) as u64),
            ("resizes_completed", done.len() as u64),
            ("scheduler_steps", out.steps),
        ],
    ))
}

pub const C10: ConcCheck = ConcCheck {
    asked: "C10",
    sub: "resize",
    mix: Mix::Resize,
    max_threads: 4,
    max_ops: 4,
    opts: ExecOpts { collect_events: true, post_growth: true, hold_refs: false, ..ExecOpts::DEFAULT },
    judge: c10_judge,
    mk_probe: NO_PROBE,
};

/// long insert-heavy programs on 4-8 threads, random tapes only: this is the family in which the
/// repaired defect F6 (a helper joining the next resize generation) shows up about once per
/// thousand executions
pub const C10L: ConcCheck = ConcCheck { sub: "resize-long", mix: Mix::Long, max_threads: 8, max_ops: 16, ..C10 };
pub const C10H: ConcCheck = ConcCheck { sub: "resize-helpers", mix: Mix::Helpers, max_threads: 4, max_ops: 3, ..C10 };
pub const C10T: ConcCheck = ConcCheck { sub: "resize-treemove", mix: Mix::TreeMove, max_threads: 3, max_ops: 3, ..C10 };
/// the first table: lazy initialisation racing `reserve`, inserts and the first resizes
pub const C10F: ConcCheck = ConcCheck { sub: "resize-first", mix: Mix::FirstOps, max_threads: 4, max_ops: 3, ..C10 };

#[derive(Clone, Debug, Serialize, Deserialize)]
struct StampCase {
    log2: u32,
}

fn check_stamps() -> Result<u64, String> {
    type M = flurry::HashMap<u32, u32>;
    let (shift, bits, max_resizers, max_cap) = M::verif_constants();
    if max_cap != 1 << 30 {
        return Err(format!("MAXIMUM_CAPACITY = {}", max_cap));
    }
    if shift + bits != std::mem::size_of::<isize>() * 8 {
        return Err(format!("RESIZE_STAMP_SHIFT {} + RESIZE_STAMP_BITS {} != word size", shift, bits));
    }
    if max_resizers <= 0 || max_resizers >= (1isize << shift) {
        return Err(format!("MAX_RESIZERS {} does not fit below the stamp (shift {})", max_resizers, shift));
    }
    let mut seen: BTreeMap<isize, u32> = BTreeMap::new();
    let mut n_checked = 0;
    for p in 0..=30u32 {
        let n = 1usize << p;
        let st = M::verif_resize_stamp(n);
        let rs = st << shift;
        if rs >= 0 {
            return Err(format!("resize_stamp({}) << SHIFT = {} is not negative", n, rs));
        }
        if rs & ((1isize << shift) - 1) != 0 {
            return Err(format!("resize_stamp({}) << SHIFT has low bits set", n));
        }
        if (rs >> shift) != st - (1isize << bits) && (rs >> shift) & ((1isize << bits) - 1) != st & ((1isize << bits) - 1) {
            return Err(format!("resize_stamp({}) does not survive the shift round trip", n));
        }
        if let Some(q) = seen.insert(rs, p) {
            return Err(format!("tables of 2^{} and 2^{} bins share the resize stamp {}", q, p, st));
        }
        // the values size_ctl takes during this resize stay negative and inside this stamp's range
        for k in [1isize, 2, 3, max_resizers] {
            let sc = rs + k;
            if sc >= 0 {
                return Err(format!("size_ctl = stamp + {} is not negative for a {}-bin table", k, n));
            }
            if (sc >> shift) != (rs >> shift) {
                return Err(format!("size_ctl = stamp + {} leaves the stamp range of a {}-bin table", k, n));
            }
        }
        n_checked += 1;
    }
    Ok(n_checked)
}

fn c10_shard(ctx: &Ctx, out: &mut ShardOut) {
    let pool = Pool::new();
    let b = budget_for(ctx.tier, ctx.shard_seed(81));
    C10.run(ctx, &pool, 10, ctx.share(ctx.by_tier(320, 3_000)) as u32, &b, out);
    let lb = Budget { single: 0, double: 0, coarse2: 0, tapes: ctx.by_tier(40, 200) as usize, tape_seed: ctx.shard_seed(91), triple: 0, stagger: 0 };
    C10L.run(ctx, &pool, 18, ctx.share(ctx.by_tier(160, 4_000)) as u32, &lb, out);
    C10H.run(ctx, &pool, 19, ctx.share(ctx.by_tier(160, 3_000)) as u32, &super::concchecks::helpers_budget(ctx.tier, ctx.shard_seed(97)), out);
    C10T.run(ctx, &pool, 20, ctx.share(ctx.by_tier(128, 2_000)) as u32, &b, out);
    C10F.run(ctx, &pool, 21, ctx.share(ctx.by_tier(200, 3_000)) as u32, &b, out);
    // sequential part: growth happens, exactly doubling, threshold 0.75 n afterwards
    let or = crate::seq::Oracles { growth: true, quiescent: true, ..Default::default() };
    drive(ctx, "seq-growth", ctx.shard_seed(16), ctx.share(ctx.by_tier(1500, 40_000)) as u32, seq_case_strategy(false, 120), out, |c| {
        let s = crate::seq::run_map_case(c, or).map_err(|f| CaseFail { prop: "C10".into(), msg: format!("[{}] step {}: {}", f.prop, f.step, f.msg) })?;
        Ok(CaseInfo { nontrivial: false, classes: vec![("sequential_cases_with_resize", (s.resizes > 0) as u64)], evaluations: 1, sub_hashes: vec![] })
    });
    if ctx.shard == 0 {
        ctx.mark_inflight("stamps", "{}");
        match check_stamps() {
            Ok(n) => {
                out.evaluations += n;
                out.class("stamp_table_lengths_checked", n);
                out.exhaustive_parts.push("resize-stamp arithmetic for all 31 legal table lengths 2^0..2^30".into());
            }
            Err(m) => out.violations.push(Viol { prop: "C10".into(), msg: format!("[C10] {}", m), replay: serde_json::json!({"sub": "stamps", "case": {}}) }),
        }
    }
}
fn c10_replay(sub: &str, case: &Value) -> Result<(), CaseFail> {
    match sub {
        "resize-long" => C10L.replay(&Pool::new(), case, &Budget { single: 0, double: 0, coarse2: 0, tapes: 200, tape_seed: 1, triple: 0, stagger: 0 }),
        "resize-helpers" => C10H.replay(&Pool::new(), case, &super::concchecks::helpers_budget(Tier::Thorough, 1)),
        "resize-treemove" => C10T.replay(&Pool::new(), case, &budget_for(Tier::Thorough, 1)),
        "resize-first" => C10F.replay(&Pool::new(), case, &budget_for(Tier::Thorough, 1)),
        "stamps" => check_stamps().map(|_| ()).map_err(|m| CaseFail { prop: "C10".into(), msg: format!("[C10] {}", m) }),
        "seq-growth" => {
            let c: SeqCase = serde_json::from_value(case.clone()).map_err(|e| CaseFail { prop: "C10".into(), msg: format!("bad replay file: {}", e) })?;
            crate::seq::run_map_case(&c, crate::seq::Oracles { growth: true, quiescent: true, ..Default::default() }).map(|_| ()).map_err(|f| CaseFail { prop: "C10".into(), msg: format!("[{}] step {}: {}", f.prop, f.step, f.msg) })
        }
        _ => C10.replay(&Pool::new(), case, &budget_for(Tier::Thorough, 1)),
    }
}

/* ------------------------------- probes ------------------------------- */

const PROBE_BUDGET: u64 = 20_000;

/// Executions longer than 400 steps are probed in a window of 400 steps; the window rotates over
/// the executions of a shard (0, 300, 600, 900, 0, ...) so that late steps are visited as well.
/// Deterministic: the sequence of executions in a shard is.
fn probe_window() -> u64 {
    (PROBE_ROT.fetch_add(1, std::sync::atomic::Ordering::Relaxed) % 4) * 300
}

fn classify_suspension(map: &FMap, pd: &Mutex<ProbeData>) {
    let d = unsafe { map.verif_dump() };
    let mut lock_held = false;
    let mut writer = false;
    if let Some(t) = &d.table {
        for b in &t.bins {
            match b {
                flurry::verif::BinDump::List { nodes, .. } => lock_held |= nodes.first().map_or(false, |n| n.locked),
                flurry::verif::BinDump::Tree { locked, lock_state, .. } => {
                    lock_held |= *locked;
                    writer |= lock_state & 3 != 0;
                }
                _ => {}
            }
        }
    }
    let mut g = pd.lock().unwrap();
    *g.classes.entry("probes").or_insert(0) += 1;
    if lock_held {
        *g.classes.entry("probes_while_a_bin_lock_is_held").or_insert(0) += 1;
    }
    if writer {
        *g.classes.entry("probes_while_a_tree_is_being_restructured_or_awaited").or_insert(0) += 1;
    }
    if d.next_table.is_some() {
        *g.classes.entry("probes_while_the_table_is_partially_transferred").or_insert(0) += 1;
    }
}

/// C12: every read operation, in isolation, at every step of every worker
fn c12_probe(prog: &Prog, map: &Arc<FMap>, pd: Arc<Mutex<ProbeData>>) -> (ProbeSel, ProbeFn) {
    let map = map.clone();
    let keys: Vec<u32> = prog.keys_used().into_iter().take(5).map(hot_tag).collect();
    let f: ProbeFn = Arc::new(move |ctx: &ProbeCtx<'_>| {
        classify_suspension(&map, &pd);
        let step = ctx.step;
        let mut obs = Vec::new();
        for t in &keys {
            let k = K::probe(*t);
            let (r, _) = ctx.isolated(PROBE_BUDGET, || {
                let g = map.guard();
                let r = map.get(&k, &g).map(|v| (v.id, v.intact()));
                r
            }).map_err(|e| format!("get({}): {}", t, e))?;
            if let Some((_, false)) = r {
                return Err(format!("get({}) returned a reference to a dropped or corrupted value", t));
            }
            obs.push(ProbeObs::Get { step, tag: *t, ret: r.map(|x| x.0) });
        }
        if let Some(t) = keys.first() {
            let k = K::probe(*t);
            ctx.isolated(PROBE_BUDGET, || {
                let g = map.guard();
                let a = map.get_key_value(&k, &g).map(|(kk, v)| (kk.tag, v.id));
                let b = map.contains_key(&k, &g);
                let p = map.pin();
                let c = p.get(&k).map(|v| v.id);
                (a, b, c)
            })
            .map_err(|e| format!("get_key_value/contains_key/pinned get({}): {}", t, e))?;
        }
        for kind in 0u8..3 {
            let (y, _) = ctx
                .isolated(PROBE_BUDGET, || {
                    let g = map.guard();
                    let y: Vec<(u32, u64)> = match kind {
                        0 => map.iter(&g).map(|(k, v)| (k.tag, v.id)).collect(),
                        1 => map.keys(&g).map(|k| (k.tag, 0)).collect(),
                        _ => map.values(&g).map(|v| (u32::MAX, v.id)).collect(),
                    };
                    y
                })
                .map_err(|e| format!("full iteration (kind {}): {}", kind, e))?;
            obs.push(ProbeObs::Iter { step, kind, yields: y });
        }
        let (l, _) = ctx.isolated(PROBE_BUDGET, || (map.len(), map.is_empty(), map.pin().len())).map_err(|e| format!("len/is_empty: {}", e))?;
        obs.push(ProbeObs::Len { step, len: l.0 });
        ctx.isolated(PROBE_BUDGET * 2, || {
            let other = FMap::with_hasher(HB(HMode::Identity));
            let a = *map == other;
            let b = *map == *map;
            (a, b)
        })
        .map_err(|e| format!("equality comparison: {}", e))?;
        ctx.isolated(PROBE_BUDGET * 2, || map.pin() == map.pin()).map_err(|e| format!("equality comparison of pinned references: {}", e))?;
        ctx.isolated(PROBE_BUDGET * 4, || {
            let g2 = map.guard();
            map.with_guard(&g2) == *map && *map == map.with_guard(&g2)
        })
        .map_err(|e| format!("equality comparison between a map and a reference wrapper: {}", e))?;
        // the other read-only entry points: Debug, serialisation, indexing
        ctx.isolated(PROBE_BUDGET * 2, || format!("{:?}", map).len() + format!("{:?}", map.pin()).len()).map_err(|e| format!("Debug: {}", e))?;
        ctx.isolated(PROBE_BUDGET * 2, || serde_json::to_string(&*map).map(|s| s.len()).unwrap_or(0) + serde_json::to_string(&map.pin()).map(|s| s.len()).unwrap_or(0)).map_err(|e| format!("Serialize: {}", e))?;
        if let Some(t) = keys.first() {
            let k = K::probe(*t);
            ctx.isolated(PROBE_BUDGET, || {
                let r = map.pin();
                // Index panics on a missing key by contract
                std::panic::catch_unwind(std::panic::AssertUnwindSafe(|| r[&k].id)).ok()
            })
            .map_err(|e| format!("Index on the pinned reference: {}", e))?;
        }
        pd.lock().unwrap().obs.extend(obs);
        Ok(())
    });
    (ProbeSel::Steps { threads: u32::MAX, every: 1, max: 400, from: probe_window() }, f)
}

fn probe_classes(out: &ConcOut) -> Vec<(&'static str, u64)> {
    let mut c: Vec<(&'static str, u64)> = out.probe_classes.iter().map(|(k, v)| (*k, *v)).collect();
    c.push(("scheduler_steps", out.steps));
    c
}

fn c12_judge(prog: &Prog, out: &ConcOut) -> Result<(bool, Vec<(&'static str, u64)>), JudgeErr> {
    base_judge("C12", out)?;
    judge_probe_obs(prog, out, "C12")?;
    let nt = out.probe_classes.iter().any(|(k, v)| *k != "probes" && *v > 0);
    Ok((nt, probe_classes(out)))
}

pub const C12: ConcCheck = ConcCheck {
    asked: "C12",
    sub: "probe",
    mix: Mix::PerKey,
    max_threads: 2,
    max_ops: 2,
    opts: ExecOpts { hold_refs: false, ..ExecOpts::DEFAULT },
    judge: c12_judge,
    mk_probe: Some(c12_probe),
};
pub const C12R: ConcCheck = ConcCheck { sub: "probe-resize", mix: Mix::Resize, ..C12 };
pub const C12C: ConcCheck = ConcCheck { sub: "probe-readers", mix: Mix::Readers, ..C12 };
pub const C12T: ConcCheck = ConcCheck { sub: "probe-treemove", mix: Mix::TreeMove, ..C12 };
pub const C12H: ConcCheck = ConcCheck { sub: "probe-helpers", mix: Mix::Helpers, max_threads: 4, ..C12 };

fn probe_budget(tier: Tier, seed: u64) -> Budget {
    // the probes already visit every step of the base schedule; preemptions add writer/writer interleavings
    match tier {
        Tier::Quick => Budget { single: 12, double: 0, coarse2: 40, tapes: 4, tape_seed: seed, triple: 0, stagger: 0 },
        Tier::Thorough => Budget { single: 150, double: 40, coarse2: 75, tapes: 20, tape_seed: seed, triple: 0, stagger: 0 },
    }
}

fn c12_shard(ctx: &Ctx, out: &mut ShardOut) {
    let pool = Pool::new();
    let b = probe_budget(ctx.tier, ctx.shard_seed(82));
    C12.run(ctx, &pool, 12, ctx.share(ctx.by_tier(96, 400)) as u32, &b, out);
    C12R.run(ctx, &pool, 13, ctx.share(ctx.by_tier(64, 300)) as u32, &b, out);
    C12C.run(ctx, &pool, 14, ctx.share(ctx.by_tier(48, 200)) as u32, &b, out);
    C12T.run(ctx, &pool, 15, ctx.share(ctx.by_tier(48, 200)) as u32, &b, out);
    let hb = Budget { single: 40, double: 0, coarse2: 20, tapes: 4, tape_seed: ctx.shard_seed(83), triple: ctx.by_tier(30, 300) as usize, stagger: 0 };
    C12H.run(ctx, &pool, 16, ctx.share(ctx.by_tier(96, 600)) as u32, &hb, out);
    out.exhaustive_parts.push("for each executed schedule: every yield point of every writer is a suspension point".into());
}
fn c12_replay(sub: &str, case: &Value) -> Result<(), CaseFail> {
    let pool = Pool::new();
    let b = probe_budget(Tier::Thorough, 1);
    match sub {
        "probe-resize" => C12R.replay(&pool, case, &b),
        "probe-readers" => C12C.replay(&pool, case, &b),
        "probe-treemove" => C12T.replay(&pool, case, &b),
        "probe-helpers" => C12H.replay(&pool, case, &Budget { single: 200, double: 0, coarse2: 100, tapes: 20, tape_seed: 1, triple: 300, stagger: 0 }),
        _ => C12.replay(&pool, case, &b),
    }
}

/* ------------------------------- C07 ------------------------------- */

fn c07_probe(_prog: &Prog, map: &Arc<FMap>, pd: Arc<Mutex<ProbeData>>) -> (ProbeSel, ProbeFn) {
    let map = map.clone();
    let f: ProbeFn = Arc::new(move |ctx: &ProbeCtx<'_>| {
        classify_suspension(&map, &pd);
        let step = ctx.step;
        let kind = (step % 3) as u8;
        let (y, _) = ctx
            .isolated(PROBE_BUDGET, || {
                let g = map.guard();
                let y: Vec<(u32, u64)> = match kind {
                    0 => map.iter(&g).map(|(k, v)| (k.tag, v.id)).collect(),
                    1 => map.keys(&g).map(|k| (k.tag, 0)).collect(),
                    _ => map.values(&g).map(|v| (u32::MAX, v.id)).collect(),
                };
                y
            })
            .map_err(|e| format!("full iteration (kind {}): {}", kind, e))?;
        pd.lock().unwrap().obs.push(ProbeObs::Iter { step, kind, yields: y });
        Ok(())
    });
    (ProbeSel::Steps { threads: u32::MAX, every: 1, max: 400, from: probe_window() }, f)
}

fn c07_judge(prog: &Prog, out: &ConcOut) -> Result<(bool, Vec<(&'static str, u64)>), JudgeErr> {
    base_judge("C07", out)?;
    judge_probe_obs(prog, out, "C07")?;
    let lives = lifetimes(out);
    let mut overlapped_migration = false;
    for it in &out.recs.iters {
        let y: Vec<(u32, u64, u64)> = it.yields.iter().map(|(t, _, v, s)| (*t, *v, *s)).collect();
        // a serialisation (kinds 3..) is judged like a traversal of the keys
        let (kind, what) = if it.kind >= 3 { (1, "serialisation") } else { (it.kind, "iteration") };
        judge_iteration(out, &lives, kind, it.created, it.end, &y, &format!("the {} (kind {}) of T{} over steps {}..{}", what, it.kind, it.thread, it.created, it.end)).map_err(|m| ("C07".to_string(), format!("[C07] {}", m)))?;
        overlapped_migration |= out.events.iter().any(|e| matches!(e, Ev::Site { kind, step, .. } if *kind == flurry::verif::EV_BIN_MOVED && *step >= it.created && *step <= it.end));
    }
    let tr = out.tree_bins_after != out.tree_bins_before;
    let probes_in_transfer = out.probe_classes.get("probes_while_the_table_is_partially_transferred").copied().unwrap_or(0) + out.probe_classes.get("probes_while_a_tree_is_being_restructured_or_awaited").copied().unwrap_or(0);
    let mut c = probe_classes(out);
    c.push(("schedules_where_an_iteration_overlapped_a_bin_migration", overlapped_migration as u64));
    c.push(("schedules_crossing_tree_conversion", tr as u64));
    Ok((overlapped_migration || tr || probes_in_transfer > 0, c))
}

/// C19 under concurrency: a map serialised (JSON text re-read keeping duplicates; a format that
/// trusts the announced length) while other threads update it must give a well-formed document
/// whose entries are a weakly consistent selection of the map's (judged like a traversal of keys)
fn c19s_judge(_prog: &Prog, out: &ConcOut) -> Result<(bool, Vec<(&'static str, u64)>), JudgeErr> {
    base_judge("C19", out)?;
    let lives = lifetimes(out);
    let mut overlapped = false;
    let mut sers = 0u64;
    for it in out.recs.iters.iter().filter(|it| it.kind >= 3) {
        sers += 1;
        let y: Vec<(u32, u64, u64)> = it.yields.iter().map(|(t, _, v, s)| (*t, *v, *s)).collect();
        judge_iteration(out, &lives, 1, it.created, it.end, &y, &format!("the serialisation (kind {}) by T{} over steps {}..{}", it.kind, it.thread, it.created, it.end)).map_err(|m| ("C19".to_string(), format!("[C19] {}", m)))?;
        overlapped |= out.recs.ops.iter().any(|e| e.thread != it.thread && crate::lin::is_write(&e.op) && e.inv < it.end && e.resp > it.created);
    }
    Ok((overlapped, vec![("serialisations_of_a_map_under_update", sers), ("schedules_where_a_serialisation_overlapped_an_update", overlapped as u64)]))
}
pub const C19S: ConcCheck = ConcCheck { asked: "C19", sub: "ser-conc", mix: Mix::Readers, max_threads: 3, max_ops: 3, opts: ExecOpts::DEFAULT, judge: c19s_judge, mk_probe: NO_PROBE };
pub const C19F: ConcCheck = ConcCheck { sub: "ser-first", mix: Mix::FirstOps, max_threads: 4, ..C19S };
pub const C19R: ConcCheck = ConcCheck { sub: "ser-resize", mix: Mix::IterResize, ..C19S };
pub fn c19_conc_run(ctx: &Ctx, out: &mut ShardOut) {
    let pool = Pool::new();
    let b = budget_for(ctx.tier, ctx.shard_seed(71));
    C19S.run(ctx, &pool, 71, ctx.share(ctx.by_tier(200, 4_000)) as u32, &b, out);
    C19F.run(ctx, &pool, 72, ctx.share(ctx.by_tier(160, 3_000)) as u32, &b, out);
    C19R.run(ctx, &pool, 73, ctx.share(ctx.by_tier(96, 2_000)) as u32, &b, out);
}
pub fn c19_conc_replay(sub: &str, case: &Value) -> Result<(), CaseFail> {
    let b = budget_for(Tier::Thorough, 1);
    match sub {
        "ser-first" => C19F.replay(&Pool::new(), case, &b),
        "ser-resize" => C19R.replay(&Pool::new(), case, &b),
        _ => C19S.replay(&Pool::new(), case, &b),
    }
}

/// (b) an iterating thread among writers
pub const C07B: ConcCheck = ConcCheck {
    asked: "C07",
    sub: "iter-conc",
    mix: Mix::Readers,
    max_threads: 3,
    max_ops: 3,
    opts: ExecOpts { collect_events: true, ..ExecOpts::DEFAULT },
    judge: c07_judge,
    mk_probe: NO_PROBE,
};
pub const C07R: ConcCheck = ConcCheck { sub: "iter-resize", mix: Mix::IterResize, ..C07B };
/// (c) a complete fresh iteration at every writer suspension point
pub const C07C: ConcCheck = ConcCheck { sub: "iter-probe", mix: Mix::PerKey, max_threads: 2, max_ops: 3, mk_probe: Some(c07_probe), ..C07B };
pub const C07D: ConcCheck = ConcCheck { sub: "iter-probe-resize", mix: Mix::Resize, max_threads: 2, max_ops: 3, mk_probe: Some(c07_probe), ..C07B };
pub const C07E: ConcCheck = ConcCheck { sub: "iter-probe-drain", mix: Mix::Drain, max_threads: 2, max_ops: 3, mk_probe: Some(c07_probe), ..C07B };
pub const C07T: ConcCheck = ConcCheck { sub: "iter-probe-treemove", mix: Mix::TreeMove, max_threads: 2, max_ops: 3, mk_probe: Some(c07_probe), ..C07B };
pub const C07H: ConcCheck = ConcCheck { sub: "iter-probe-helpers", mix: Mix::Helpers, max_threads: 4, max_ops: 3, mk_probe: Some(c07_probe), ..C07B };
pub const C07F: ConcCheck = ConcCheck { sub: "iter-drain", mix: Mix::Drain, max_threads: 3, max_ops: 3, ..C07B };
pub const C07L: ConcCheck = ConcCheck { sub: "iter-long", mix: Mix::LongReaders, max_threads: 5, max_ops: 8, ..C07B };

fn c07_shard(ctx: &Ctx, out: &mut ShardOut) {
    // (a) single thread: next() interleaved with mutations that complete whole resizes
    drive(ctx, "iter-seq", ctx.shard_seed(1), ctx.share(ctx.by_tier(3000, 100_000)) as u32, iter_case_strategy(), out, |c| {
        let st = run_iter_case(c).map_err(|m| CaseFail { prop: "C07".into(), msg: format!("[C07] {}", m) })?;
        Ok(CaseInfo { nontrivial: st.resizes_during > 0 || st.tree_conversions_during > 0, classes: vec![("iter_seq_cases_with_resize_during_iteration", (st.resizes_during > 0) as u64), ("iter_seq_cases_with_nested_resizes", (st.resizes_during > 1) as u64), ("iter_seq_cases_with_tree_conversion_during_iteration", (st.tree_conversions_during > 0) as u64), ("iter_seq_yields", st.yields)], evaluations: 1, sub_hashes: vec![] })
    });
    let pool = Pool::new();
    let b = budget_for(ctx.tier, ctx.shard_seed(83));
    C07B.run(ctx, &pool, 7, ctx.share(ctx.by_tier(160, 1_500)) as u32, &b, out);
    C07R.run(ctx, &pool, 8, ctx.share(ctx.by_tier(160, 1_500)) as u32, &b, out);
    let pb = match ctx.tier {
        Tier::Quick => Budget { single: 40, double: 8, coarse2: 40, tapes: 4, tape_seed: ctx.shard_seed(84), triple: 0, stagger: 0 },
        Tier::Thorough => Budget { single: 400, double: 400, coarse2: 200, tapes: 20, tape_seed: ctx.shard_seed(84), triple: 0, stagger: 0 },
    };
    C07C.run(ctx, &pool, 9, ctx.share(ctx.by_tier(96, 400)) as u32, &pb, out);
    C07D.run(ctx, &pool, 10, ctx.share(ctx.by_tier(64, 300)) as u32, &pb, out);
    C07T.run(ctx, &pool, 14, ctx.share(ctx.by_tier(48, 300)) as u32, &pb, out);
    super::concchecks::set_run(ctx, &pool, out, "iter-set", true, 400, 6_000);
    let hb = Budget { single: 40, double: 0, coarse2: 20, tapes: 4, tape_seed: ctx.shard_seed(90), triple: ctx.by_tier(30, 300) as usize, stagger: 0 };
    C07H.run(ctx, &pool, 15, ctx.share(ctx.by_tier(128, 800)) as u32, &hb, out);
    let db = match ctx.tier {
        Tier::Quick => Budget { single: 30, double: 0, coarse2: 260, tapes: 2, tape_seed: ctx.shard_seed(88), triple: 0, stagger: 0 },
        Tier::Thorough => Budget { single: 300, double: 300, coarse2: 3000, tapes: 20, tape_seed: ctx.shard_seed(88), triple: 0, stagger: 0 },
    };
    C07E.run(ctx, &pool, 11, ctx.share(ctx.by_tier(48, 300)) as u32, &db, out);
    C07F.run(ctx, &pool, 12, ctx.share(ctx.by_tier(48, 1_000)) as u32, &b, out);
    let lb = Budget { single: 0, double: 0, coarse2: 0, tapes: ctx.by_tier(16, 100) as usize, tape_seed: ctx.shard_seed(97), triple: 0, stagger: 0 };
    C07L.run(ctx, &pool, 13, ctx.share(ctx.by_tier(96, 2_000)) as u32, &lb, out);
}
fn c07_replay(sub: &str, case: &Value) -> Result<(), CaseFail> {
    let b = budget_for(Tier::Thorough, 1);
    let pb = Budget { single: 400, double: 400, coarse2: 200, tapes: 20, tape_seed: 1, triple: 0, stagger: 0 };
    match sub {
        "iter-seq" => {
            let c: IterCase = serde_json::from_value(case.clone()).map_err(|e| CaseFail { prop: "C07".into(), msg: format!("bad replay file: {}", e) })?;
            run_iter_case(&c).map(|_| ()).map_err(|m| CaseFail { prop: "C07".into(), msg: format!("[C07] {}", m) })
        }
        "iter-resize" => C07R.replay(&Pool::new(), case, &b),
        "iter-probe" => C07C.replay(&Pool::new(), case, &pb),
        "iter-probe-resize" => C07D.replay(&Pool::new(), case, &pb),
        "iter-probe-treemove" => C07T.replay(&Pool::new(), case, &pb),
        "iter-set" => super::concchecks::c01_set_replay(&Pool::new(), case),
        "iter-probe-helpers" => C07H.replay(&Pool::new(), case, &Budget { single: 200, double: 0, coarse2: 100, tapes: 20, tape_seed: 1, triple: 300, stagger: 0 }),
        "iter-probe-drain" => C07E.replay(&Pool::new(), case, &Budget { single: 300, double: 300, coarse2: 3000, tapes: 20, tape_seed: 1, triple: 0, stagger: 0 }),
        "iter-drain" => C07F.replay(&Pool::new(), case, &b),
        "iter-long" => C07L.replay(&Pool::new(), case, &Budget { single: 0, double: 0, coarse2: 0, tapes: 100, tape_seed: 1, triple: 0, stagger: 0 }),
        _ => C07B.replay(&Pool::new(), case, &b),
    }
}

/* ---- (a) single-threaded interleaving of next() with mutations ---- */

#[derive(Clone, Debug, Serialize, Deserialize)]
pub enum IterStep {
    Next(u8),
    Insert(u16),
    Remove(u16),
    Fill(u16, u16),
    Drain(u16, u16),
    Reserve(u16),
    Clear,
}
#[derive(Clone, Debug, Serialize, Deserialize)]
pub struct IterCase {
    pub hmode: HMode,
    pub capacity: u32,
    pub universe: u16,
    pub prefix: Vec<(u16, u16)>,
    pub kind: u8,
    pub script: Vec<IterStep>,
}
#[derive(Default)]
pub struct IterStats {
    pub resizes_during: u64,
    pub tree_conversions_during: u64,
    pub yields: u64,
}

fn iter_case_strategy() -> impl Strategy<Value = IterCase> {
    (hmode_strategy(), prop_oneof![Just(0u32), Just(1u32), Just(5u32), Just(20u32), Just(43u32)], prop_oneof![Just(16u16), Just(48u16), Just(160u16)], 0u8..3).prop_flat_map(|(hmode, capacity, universe, kind)| {
        let u = universe;
        let step = prop_oneof![
            10 => (1u8..6).prop_map(IterStep::Next),
            4 => (0..u).prop_map(IterStep::Insert),
            3 => (0..u).prop_map(IterStep::Remove),
            3 => (0..u, 4u16..60).prop_map(|(a, n)| IterStep::Fill(a, n)),
            1 => (0..u, 2u16..30).prop_map(|(a, n)| IterStep::Drain(a, n)),
            1 => (10u16..300).prop_map(IterStep::Reserve),
        ];
        (proptest::collection::vec((0..u, 1u16..20), 0..4), proptest::collection::vec(step, 1..40)).prop_map(move |(prefix, script)| IterCase { hmode, capacity, universe, prefix, kind, script })
    })
}

pub fn run_iter_case(c: &IterCase) -> Result<IterStats, String> {
    ledger_reset();
    let cfg = Cfg { hmode: c.hmode, capacity: c.capacity, facade: Facade::Guarded, batch: 1, universe: c.universe, keymap: KeyMap::Mixed, set: false };
    let coll = seize::Collector::new().batch_size(1);
    let map = FMap::with_capacity_and_hasher(c.capacity as usize, HB(c.hmode)).with_collector(coll);
    // model with logical time: key -> list of (value id, from, to)
    let mut time = 1u64;
    let mut lives: BTreeMap<u32, Vec<(u64, u64, u64)>> = BTreeMap::new();
    let mut cur: BTreeMap<u32, u64> = BTreeMap::new();
    let g = map.guard();
    let ins = |map: &FMap, tag: u32, time: &mut u64, lives: &mut BTreeMap<u32, Vec<(u64, u64, u64)>>, cur: &mut BTreeMap<u32, u64>| {
        *time += 1;
        let v = V::new(tag as u64);
        let id = v.id;
        map.insert(K::new(tag), v, &g);
        if let Some(old) = cur.insert(tag, id) {
            for l in lives.get_mut(&tag).unwrap().iter_mut() {
                if l.0 == old {
                    l.2 = *time;
                }
            }
        }
        lives.entry(tag).or_default().push((id, *time, u64::MAX));
    };
    let rem = |map: &FMap, tag: u32, time: &mut u64, lives: &mut BTreeMap<u32, Vec<(u64, u64, u64)>>, cur: &mut BTreeMap<u32, u64>| {
        *time += 1;
        map.remove(&K::probe(tag), &g);
        if let Some(old) = cur.remove(&tag) {
            for l in lives.get_mut(&tag).unwrap().iter_mut() {
                if l.0 == old {
                    l.2 = *time;
                }
            }
        }
    };
    for (a, n) in &c.prefix {
        for j in 0..*n {
            ins(&map, cfg.tag(a.wrapping_add(j)), &mut time, &mut lives, &mut cur);
        }
    }
    time += 1;
    let created = time;
    let shape0 = crate::inspect::shape(&unsafe { map.verif_dump() });
    let mut st = IterStats::default();
    let mut last_len = shape0.table_len;
    let mut last_trees = shape0.tree_bins;
    let mut yields: Vec<(u32, u64, u64)> = Vec::new();
    let mut it_iter = if c.kind == 0 { Some(map.iter(&g)) } else { None };
    let mut it_keys = if c.kind == 1 { Some(map.keys(&g)) } else { None };
    let mut it_vals = if c.kind == 2 { Some(map.values(&g)) } else { None };
    let mut exhausted = false;
    let mut touched_keys: BTreeSet<u32> = BTreeSet::new();
    let mut inserts_during = 0usize;
    let mut next = |time: &mut u64, yields: &mut Vec<(u32, u64, u64)>, exhausted: &mut bool| {
        *time += 1;
        let y = match c.kind {
            0 => it_iter.as_mut().unwrap().next().map(|(k, v)| (k.tag, v.id, k.intact() && v.intact())),
            1 => it_keys.as_mut().unwrap().next().map(|k| (k.tag, 0, k.intact())),
            _ => it_vals.as_mut().unwrap().next().map(|v| (u32::MAX, v.id, v.intact())),
        };
        match y {
            Some((t, v, ok)) => {
                yields.push((t, v, *time));
                ok
            }
            None => {
                *exhausted = true;
                true
            }
        }
    };
    let bound = |init: usize, ins: usize| 2 * (init + ins) + 16;
    let init_size = cur.len();
    for s in &c.script {
        match s {
            IterStep::Next(n) => {
                for _ in 0..*n {
                    if exhausted {
                        break;
                    }
                    if !next(&mut time, &mut yields, &mut exhausted) {
                        return Err("the iterator yielded a dropped or corrupted key/value while its guard is alive".into());
                    }
                }
            }
            IterStep::Insert(i) => {
                let t = cfg.tag(*i);
                touched_keys.insert(t);
                inserts_during += 1;
                ins(&map, t, &mut time, &mut lives, &mut cur);
            }
            IterStep::Remove(i) => {
                let t = cfg.tag(*i);
                touched_keys.insert(t);
                rem(&map, t, &mut time, &mut lives, &mut cur);
            }
            IterStep::Fill(a, n) => {
                for j in 0..*n {
                    let t = cfg.tag(a.wrapping_add(j));
                    touched_keys.insert(t);
                    inserts_during += 1;
                    ins(&map, t, &mut time, &mut lives, &mut cur);
                }
            }
            IterStep::Drain(a, n) => {
                for j in 0..*n {
                    let t = cfg.tag(a.wrapping_add(j));
                    touched_keys.insert(t);
                    rem(&map, t, &mut time, &mut lives, &mut cur);
                }
            }
            IterStep::Reserve(n) => map.reserve(*n as usize, &g),
            IterStep::Clear => {}
        }
        let sh = crate::inspect::shape(&unsafe { map.verif_dump() });
        if sh.table_len != last_len && !exhausted {
            st.resizes_during += 1;
        }
        if sh.tree_bins != last_trees && !exhausted {
            st.tree_conversions_during += 1;
        }
        last_len = sh.table_len;
        last_trees = sh.tree_bins;
    }
    // drain
    let mut guard_count = 0usize;
    while !exhausted {
        if !next(&mut time, &mut yields, &mut exhausted) {
            return Err("the iterator yielded a dropped or corrupted key/value while its guard is alive".into());
        }
        guard_count += 1;
        if yields.len() > bound(init_size, inserts_during) {
            return Err(format!("the iterator yielded {} items and still goes on; {} initial entries and {} inserts during the iteration allow at most {}", yields.len(), init_size, inserts_during, bound(init_size, inserts_during)));
        }
        if guard_count > 1_000_000 {
            return Err("the iterator does not terminate".into());
        }
    }
    let end = time;
    st.yields = yields.len() as u64;
    // every yield was in the map at some moment of [created, yield]
    for (t, v, at) in &yields {
        let ok = match c.kind {
            0 => lives.get(t).map_or(false, |ls| ls.iter().any(|l| l.0 == *v && l.1 <= *at && l.2 >= created)),
            1 => lives.get(t).map_or(false, |ls| ls.iter().any(|l| l.1 <= *at && l.2 >= created)),
            _ => lives.values().any(|ls| ls.iter().any(|l| l.0 == *v && l.1 <= *at && l.2 >= created)),
        };
        if !ok {
            return Err(format!("the iterator yielded (key {}, value {}) at time {} which was not in the map at any moment since the iterator's creation at time {}", t, v, at, created));
        }
    }
    // untouched present keys exactly once
    if c.kind != 2 {
        for (t, ls) in &lives {
            if touched_keys.contains(t) {
                continue;
            }
            if ls.iter().any(|l| l.1 < created && l.2 > end) {
                let n = yields.iter().filter(|y| y.0 == *t).count();
                if n != 1 {
                    return Err(format!("key {} was present and untouched during the whole iteration but was yielded {} times (table went from {} to {} bins meanwhile)", t, n, shape0.table_len, last_len));
                }
            }
        }
    } else {
        for (t, ls) in &lives {
            if touched_keys.contains(t) {
                continue;
            }
            for l in ls.iter().filter(|l| l.1 < created && l.2 > end) {
                let n = yields.iter().filter(|y| y.1 == l.0).count();
                if n != 1 {
                    return Err(format!("the value of untouched key {} was yielded {} times by values()", t, n));
                }
            }
        }
    }
    drop((it_iter, it_keys, it_vals));
    drop(g);
    Ok(st)
}

/* ------------------------------- C03 ------------------------------- */

fn c03_probe(prog: &Prog, map: &Arc<FMap>, pd: Arc<Mutex<ProbeData>>) -> (ProbeSel, ProbeFn) {
    let map = map.clone();
    let keys: Vec<u32> = prog.keys_used().into_iter().take(3).map(hot_tag).collect();
    let f: ProbeFn = Arc::new(move |ctx: &ProbeCtx<'_>| {
        *pd.lock().unwrap().classes.entry("probes").or_insert(0) += 1;
        // a fresh reader must only ever see live, intact keys and values
        let (bad, _) = ctx
            .isolated(PROBE_BUDGET, || {
                let g = map.guard();
                let mut bad = None;
                for t in &keys {
                    if let Some((k, v)) = map.get_key_value(&K::probe(*t), &g) {
                        if !k.intact() || !v.intact() {
                            bad = Some(format!("get_key_value({}) handed out a dropped or corrupted entry", t));
                        }
                    }
                }
                for (k, v) in map.iter(&g) {
                    if !k.intact() || !v.intact() {
                        bad = Some(format!("iteration handed out a dropped or corrupted entry (key tag {})", k.tag));
                    }
                }
                bad
            })
            .map_err(|e| format!("reader: {}", e))?;
        match bad {
            Some(m) => Err(m),
            None => Ok(()),
        }
    });
    (ProbeSel::Steps { threads: u32::MAX, every: 1, max: 400, from: probe_window() }, f)
}

fn c03_judge(prog: &Prog, out: &ConcOut) -> Result<(bool, Vec<(&'static str, u64)>), JudgeErr> {
    base_judge("C03", out)?;
    let retired = out.events.iter().filter(|e| matches!(e, Ev::Site { kind, .. } if *kind == flurry::verif::EV_RETIRE)).count() as u64;
    let nt = out.recs.held_checked > 0 && retired > 0 && prog.cfg.batch <= 3 && out.freed_blocks > 0;
    let mut c = probe_classes(out);
    c.push(("references_verified_at_guard_release", out.recs.held_checked));
    c.push(("retirements_checked_for_reachability", retired));
    c.push(("schedules_freeing_memory_during_the_run", (out.freed_blocks > 0) as u64));
    Ok((nt, c))
}

pub const C03: ConcCheck = ConcCheck {
    asked: "C03",
    sub: "refs",
    mix: Mix::Readers,
    max_threads: 3,
    max_ops: 3,
    opts: ExecOpts { collect_events: true, hold_refs: true, retire_reachability: true, quarantine: true, ..ExecOpts::DEFAULT },
    judge: c03_judge,
    mk_probe: NO_PROBE,
};
pub const C03K: ConcCheck = ConcCheck { sub: "refs-perkey", mix: Mix::PerKey, ..C03 };
pub const C03R: ConcCheck = ConcCheck { sub: "refs-resize", mix: Mix::Resize, ..C03 };
pub const C03P: ConcCheck = ConcCheck { sub: "refs-probe", mix: Mix::Readers, max_threads: 2, mk_probe: Some(c03_probe), ..C03 };
pub const C03L: ConcCheck = ConcCheck { sub: "refs-long", mix: Mix::Long, max_threads: 8, max_ops: 10, ..C03 };
pub const C03M: ConcCheck = ConcCheck { sub: "refs-long-readers", mix: Mix::LongReaders, max_threads: 5, max_ops: 8, ..C03 };
pub const C03H: ConcCheck = ConcCheck { sub: "refs-helpers", mix: Mix::Helpers, max_threads: 4, max_ops: 3, ..C03 };
pub const C03A: ConcCheck = ConcCheck { sub: "refs-retain", mix: Mix::Retain, ..C03 };
pub const C03D: ConcCheck = ConcCheck { sub: "refs-drain", mix: Mix::Drain, ..C03 };
pub const C03U: ConcCheck = ConcCheck { sub: "refs-compute", mix: Mix::Compute, ..C03 };
pub const C03W: ConcCheck = ConcCheck { sub: "refs-crowd", mix: Mix::Crowd, max_threads: 130, ..C03 };
pub const C03T: ConcCheck = ConcCheck { sub: "refs-treemove", mix: Mix::TreeMove, max_threads: 3, max_ops: 3, ..C03 };

const C03_OR: crate::seq::Oracles = crate::seq::Oracles { returns: true, quiescent: false, ledger: true, canary: true, capacity: false, cmp_bound: false, growth: false };

/// bulk constructors with arbitrary legal size hints and collision patterns
fn bulk_case_strategy() -> impl Strategy<Value = SeqCase> {
    cfg_strategy(false).prop_flat_map(|cfg| {
        let u = cfg.universe;
        let items = proptest::collection::vec(0..u, 0..300);
        let op = prop_oneof![
            6 => (items.clone(), any::<u8>()).prop_map(|(i, h)| Op::Collect(i, h)),
            4 => (items.clone(), any::<u8>()).prop_map(|(i, h)| Op::Extend(i, h)),
            2 => Just(Op::CloneSwap),
            2 => (0..u).prop_map(Op::Insert),
            1 => (0..u).prop_map(Op::Remove),
            1 => (0u8..3).prop_map(Op::Iterate),
            1 => (0..u).prop_map(Op::GetKV),
        ];
        proptest::collection::vec(op, 1..8).prop_map(move |ops| SeqCase { cfg: cfg.clone(), ops })
    })
}

fn quarantine_verdict(what: &str) -> Result<(), CaseFail> {
    let (df, dsz) = crate::alloc::take_double_frees();
    if df > 0 {
        let _ = crate::alloc::drain_and_check();
        return Err(CaseFail { prop: "C03".into(), msg: format!("[C03] double free during {}: a block of {} bytes that was already freed was freed again", what, dsz) });
    }
    let (c, size, off) = crate::alloc::drain_and_check();
    if c > 0 {
        return Err(CaseFail { prop: "C03".into(), msg: format!("[C03] write after free during {}: a freed block of {} bytes was modified at offset {} while parked in the quarantine", what, size, off) });
    }
    Ok(())
}

fn c03_shard(ctx: &Ctx, out: &mut ShardOut) {
    crate::alloc::enable(true);
    drive(ctx, "bulk", ctx.shard_seed(1), ctx.share(ctx.by_tier(2400, 80_000)) as u32, bulk_case_strategy(), out, |c| {
        let s = crate::seq::run_map_case(c, C03_OR).map_err(|f| CaseFail { prop: "C03".into(), msg: format!("[{}] step {}: {}", f.prop, f.step, f.msg) })?;
        quarantine_verdict("a bulk construction")?;
        Ok(CaseInfo {
            nontrivial: s.collects_with_transfer > 0 || s.collects_with_tree > 0,
            classes: vec![("bulk_cases_collect_with_transfer", (s.collects_with_transfer > 0) as u64), ("bulk_cases_collect_with_tree", (s.collects_with_tree > 0) as u64), ("references_verified_at_guard_release", s.held_checked)],
            evaluations: 1,
            sub_hashes: vec![],
        })
    });
    drive(ctx, "seq", ctx.shard_seed(2), ctx.share(ctx.by_tier(2400, 80_000)) as u32, seq_case_strategy(false, 120), out, |c| {
        let s = crate::seq::run_map_case(c, C03_OR).map_err(|f| CaseFail { prop: "C03".into(), msg: format!("[{}] step {}: {}", f.prop, f.step, f.msg) })?;
        quarantine_verdict("a sequential history")?;
        Ok(CaseInfo { nontrivial: s.held_across_retire > 0 && c.cfg.batch <= 3, classes: vec![("seq_cases_holding_references_across_retirement", (s.held_across_retire > 0) as u64), ("references_verified_at_guard_release", s.held_checked)], evaluations: 1, sub_hashes: vec![] })
    });
    let pool = Pool::new();
    let b = budget_for(ctx.tier, ctx.shard_seed(85));
    C03.run(ctx, &pool, 3, ctx.share(ctx.by_tier(128, 1_500)) as u32, &b, out);
    C03K.run(ctx, &pool, 4, ctx.share(ctx.by_tier(128, 1_500)) as u32, &b, out);
    C03R.run(ctx, &pool, 5, ctx.share(ctx.by_tier(96, 1_000)) as u32, &b, out);
    let pb = probe_budget(ctx.tier, ctx.shard_seed(86));
    C03P.run(ctx, &pool, 6, ctx.share(ctx.by_tier(64, 400)) as u32, &pb, out);
    let lb = Budget { single: 0, double: 0, coarse2: 0, tapes: ctx.by_tier(16, 100) as usize, tape_seed: ctx.shard_seed(95), triple: 0, stagger: 0 };
    C03L.run(ctx, &pool, 7, ctx.share(ctx.by_tier(64, 1_500)) as u32, &lb, out);
    C03M.run(ctx, &pool, 8, ctx.share(ctx.by_tier(64, 1_500)) as u32, &lb, out);
    C03T.run(ctx, &pool, 9, ctx.share(ctx.by_tier(96, 1_000)) as u32, &b, out);
    C03A.run(ctx, &pool, 11, ctx.share(ctx.by_tier(64, 1_000)) as u32, &b, out);
    C03D.run(ctx, &pool, 12, ctx.share(ctx.by_tier(64, 1_000)) as u32, &b, out);
    C03U.run(ctx, &pool, 13, ctx.share(ctx.by_tier(64, 1_000)) as u32, &b, out);
    C03H.run(ctx, &pool, 10, ctx.share(ctx.by_tier(64, 800)) as u32, &super::concchecks::helpers_budget(ctx.tier, ctx.shard_seed(98)), out);
    drop(pool);
    C03W.run(ctx, &Pool::with_workers(super::concchecks::CROWD_WORKERS), 14, ctx.share(ctx.by_tier(64, 1_000)) as u32, &super::concchecks::crowd_budget(ctx.tier, ctx.shard_seed(99)), out);
    let _ = crate::alloc::drain_and_check();
    crate::alloc::enable(false);
}
fn c03_replay(sub: &str, case: &Value) -> Result<(), CaseFail> {
    crate::alloc::enable(true);
    let b = budget_for(Tier::Thorough, 1);
    let r = match sub {
        "bulk" | "seq" => {
            let c: SeqCase = serde_json::from_value(case.clone()).map_err(|e| CaseFail { prop: "C03".into(), msg: format!("bad replay file: {}", e) })?;
            crate::seq::run_map_case(&c, C03_OR).map(|_| ()).map_err(|f| CaseFail { prop: "C03".into(), msg: format!("[{}] step {}: {}", f.prop, f.step, f.msg) }).and_then(|_| quarantine_verdict("the replayed history"))
        }
        "refs-perkey" => C03K.replay(&Pool::new(), case, &b),
        "refs-treemove" => C03T.replay(&Pool::new(), case, &b),
        "refs-retain" => C03A.replay(&Pool::new(), case, &b),
        "refs-drain" => C03D.replay(&Pool::new(), case, &b),
        "refs-compute" => C03U.replay(&Pool::new(), case, &b),
        "refs-crowd" => C03W.replay(&Pool::with_workers(super::concchecks::CROWD_WORKERS), case, &super::concchecks::crowd_budget(Tier::Thorough, 1)),
        "refs-helpers" => C03H.replay(&Pool::new(), case, &super::concchecks::helpers_budget(Tier::Thorough, 1)),
        "refs-resize" => C03R.replay(&Pool::new(), case, &b),
        "refs-probe" => C03P.replay(&Pool::new(), case, &probe_budget(Tier::Thorough, 1)),
        "refs-long-readers" => C03M.replay(&Pool::new(), case, &Budget { single: 0, double: 0, coarse2: 0, tapes: 100, tape_seed: 1, triple: 0, stagger: 0 }),
        "refs-long" => C03L.replay(&Pool::new(), case, &Budget { single: 0, double: 0, coarse2: 0, tapes: 100, tape_seed: 1, triple: 0, stagger: 0 }),
        _ => C03.replay(&Pool::new(), case, &b),
    };
    crate::alloc::enable(false);
    r
}

/* ------------------------------- C15 ------------------------------- */

fn c15_judge(_prog: &Prog, out: &ConcOut) -> Result<(bool, Vec<(&'static str, u64)>), JudgeErr> {
    base_judge("C15", out)?;
    let hb = out.hb.clone().unwrap_or_default();
    if let Some(v) = hb.violations.first() {
        return Err(("C15".into(), format!("[C15] {}", v)));
    }
    let rs = out.table_len_after != out.table_len_before;
    let tr = out.tree_bins_after != out.tree_bins_before;
    Ok((
        hb.cross_thread > 0 && (hb.cross_copy > 0 || rs || tr),
        vec![
            ("accesses_checked", hb.checked),
            ("cross_thread_accesses", hb.cross_thread),
            ("accesses_to_keys_copied_by_a_third_thread", hb.cross_copy),
            ("schedules_crossing_resize", rs as u64),
            ("schedules_crossing_tree_conversion", tr as u64),
            ("scheduler_steps", out.steps),
        ],
    ))
}

pub const C15: ConcCheck = ConcCheck { asked: "C15", sub: "hb", mix: Mix::PerKey, max_threads: 3, max_ops: 3, opts: ExecOpts { hb: true, ..ExecOpts::DEFAULT }, judge: c15_judge, mk_probe: NO_PROBE };
pub const C15R: ConcCheck = ConcCheck { sub: "hb-resize", mix: Mix::Resize, ..C15 };
pub const C15I: ConcCheck = ConcCheck { sub: "hb-readers", mix: Mix::Readers, ..C15 };
pub const C15L: ConcCheck = ConcCheck { sub: "hb-long", mix: Mix::Long, max_threads: 8, max_ops: 10, ..C15 };
pub const C15T: ConcCheck = ConcCheck { sub: "hb-treemove", mix: Mix::TreeMove, ..C15 };
pub const C15A: ConcCheck = ConcCheck { sub: "hb-retain", mix: Mix::Retain, ..C15 };
pub const C15D: ConcCheck = ConcCheck { sub: "hb-drain", mix: Mix::Drain, ..C15 };
pub const C15U: ConcCheck = ConcCheck { sub: "hb-compute", mix: Mix::Compute, ..C15 };
pub const C15H: ConcCheck = ConcCheck { sub: "hb-helpers", mix: Mix::Helpers, max_threads: 4, ..C15 };

fn c15_shard(ctx: &Ctx, out: &mut ShardOut) {
    let pool = Pool::new();
    let b = budget_for(ctx.tier, ctx.shard_seed(87));
    C15.run(ctx, &pool, 15, ctx.share(ctx.by_tier(1600, 24_000)) as u32, &b, out);
    C15R.run(ctx, &pool, 16, ctx.share(ctx.by_tier(320, 8_000)) as u32, &b, out);
    C15I.run(ctx, &pool, 17, ctx.share(ctx.by_tier(320, 8_000)) as u32, &b, out);
    let lb = Budget { single: 0, double: 0, coarse2: 0, tapes: ctx.by_tier(16, 100) as usize, tape_seed: ctx.shard_seed(96), triple: 0, stagger: 0 };
    C15L.run(ctx, &pool, 18, ctx.share(ctx.by_tier(64, 1_500)) as u32, &lb, out);
    C15T.run(ctx, &pool, 19, ctx.share(ctx.by_tier(320, 6_000)) as u32, &b, out);
    C15A.run(ctx, &pool, 21, ctx.share(ctx.by_tier(128, 3_000)) as u32, &b, out);
    C15D.run(ctx, &pool, 22, ctx.share(ctx.by_tier(96, 2_000)) as u32, &b, out);
    C15U.run(ctx, &pool, 23, ctx.share(ctx.by_tier(128, 3_000)) as u32, &b, out);
    C15H.run(ctx, &pool, 20, ctx.share(ctx.by_tier(96, 1_500)) as u32, &super::concchecks::helpers_budget(ctx.tier, ctx.shard_seed(99)), out);
}
fn c15_replay(sub: &str, case: &Value) -> Result<(), CaseFail> {
    let b = budget_for(Tier::Thorough, 1);
    match sub {
        "hb-resize" => C15R.replay(&Pool::new(), case, &b),
        "hb-readers" => C15I.replay(&Pool::new(), case, &b),
        "hb-treemove" => C15T.replay(&Pool::new(), case, &b),
        "hb-retain" => C15A.replay(&Pool::new(), case, &b),
        "hb-drain" => C15D.replay(&Pool::new(), case, &b),
        "hb-compute" => C15U.replay(&Pool::new(), case, &b),
        "hb-helpers" => C15H.replay(&Pool::new(), case, &super::concchecks::helpers_budget(Tier::Thorough, 1)),
        "hb-long" => C15L.replay(&Pool::new(), case, &Budget { single: 0, double: 0, coarse2: 0, tapes: 100, tape_seed: 1, triple: 0, stagger: 0 }),
        _ => C15.replay(&Pool::new(), case, &b),
    }
}

pub fn defs() -> Vec<PropDef> {
    let wd: fn(Tier) -> u64 = |t| if t == Tier::Quick { 1500 } else { 8 * 3600 };
    vec![
        PropDef {
            id: "C10",
            level: "exploration",
            rule: "generated 2-4 thread programs of inserts / reserve / lookups around the resize threshold of 16..128-bin tables (and uninitialised tables), explored like C01; the site-event stream must show: every bin of a table being resized migrated exactly once, one publication per generation and only after all bins moved, no resize starting before the previous one was published, each generation exactly twice the previous length; after join: next_table null, size_ctl = 0.75 n, final length = initial << generations, a further growth from the main thread works and dropping the map does not panic; sequential part: an insert that brings the count to the threshold must double the table and leave the threshold at 0.75 of the new length; resize-stamp arithmetic exhaustively for all 31 table lengths; non-trivial = at least two threads migrated bins of the same generation; distinct = hash(program) x hash(preemptions)",
            assumptions: &["as C01", "table lengths above 4096 are not exercised concurrently"],
            run_shard: c10_shard,
            replay: c10_replay,
            shards: super::sixteen,
            watchdog: wd,
        },
        PropDef {
            id: "C12",
            level: "fault_enumeration",
            rule: "for generated (initial state, 2 writer threads x 1-2 operations) pairs over insert/try_insert/remove/compute/clear/reserve (list bins, tree bins, around the resize threshold) and a few preemptive schedules each: at EVERY yield point of every writer all threads are frozen and a fresh thread runs get (up to 5 keys), get_key_value, contains_key, pinned get, full iter/keys/values, len/is_empty and == in isolation; oracle: each read completes within 20000 of its own steps, never calls the before-lock, park or spin hook, returns a value the key can hold at that instant (lifetime intervals from the history) and a weakly consistent iteration; afterwards the writers resume and the quiescent oracle holds; evaluations = executions (each containing one probe round per step; probe rounds are counted in the class list); non-trivial = a suspension point inside a bin critical section, a tree restructuring (WRITER/WAITER set) or a partially transferred table; distinct = hash(program) x hash(preemptions)",
            assumptions: &["the step bound (20000) separates legitimate reads (< 2000 steps on these maps) from a reader that waits for the frozen writer", "as C01"],
            run_shard: c12_shard,
            replay: c12_replay,
            shards: super::sixteen,
            watchdog: wd,
        },
        PropDef {
            id: "C07",
            level: "exploration",
            rule: "(a) single thread: generated scripts interleaving next() of iter/keys/values with inserts, removals, fills that complete 0-3 nested resizes and tree conversions (all hashers); (b) an iterating thread among writers under the scheduler, resizes paused between bins by preemption; (c) a complete fresh iteration in isolation at every yield point of the writers; oracle everywhere: the iteration terminates within 2*(initial size + overlapping inserts)+16 yields, yields exactly once every key present and untouched from creation to exhaustion, and every yielded pair was possibly in the map at some moment of [creation, yield] (judged permissively from unique value ids and operation intervals); evaluations = executions / scripts; non-trivial = the iteration overlapped a bin migration or a tree conversion (or a probe ran while the table was partially transferred / a tree was being restructured); distinct = hash(case) x hash(preemptions)",
            assumptions: &["as C01"],
            run_shard: c07_shard,
            replay: c07_replay,
            shards: super::sixteen,
            watchdog: wd,
        },
        PropDef {
            id: "C03",
            level: "exploration",
            rule: "(i) generated bulk constructions (collect / extend / clone with every legal lower size hint, 0-300 items, all collision patterns) and sequential histories, (ii) concurrent programs in which readers keep guards (per thread / per operation) and every reference they obtained while other threads remove, replace, clear, resize and (un)treeify, (iii) isolated readers at every writer step; oracles: every held key/value reference is re-read (canary, identity, ledger says not dropped) just before its guard is released; the quarantine allocator poisons freed blocks and reports any write to them; at every retirement the retired address must already be unreachable from table/next_table; collector batch sizes 1,2,3,8,32,120; non-trivial = references were held across at least one retirement with batch size <= 3 and memory was really freed during the case, or a bulk constructor had to transfer or treeify; distinct = hash(case) x hash(preemptions)",
            assumptions: &["a read of freed memory is detected through poison (dead canary / wild pointer crash / garbage discriminant), not with certainty; the ASan build of the fuzz targets (thorough tier) closes that gap", "as C01"],
            run_shard: c03_shard,
            replay: c03_replay,
            shards: super::sixteen,
            watchdog: wd,
        },
        PropDef {
            id: "C15",
            level: "exploration",
            rule: "concurrent programs (per-key operations, resize-heavy, readers/iterators) explored like C01 with a vector-clock monitor fed by the hook stream (the orderings the code actually passes; guarded loads are SeqCst): a thread 'initialises' every key/value it creates, key copies made inside the map are initialised by the copying thread after an access to the original; every time a thread obtains a key or value (lookup, iteration, previous value of an update, closure argument) the initialisation must happen-before the access through release/acquire edges on the locations actually read, release sequences (only RMWs continue them) and bin-lock edges; non-trivial = a thread accessed data initialised by another thread and the path crossed a copy by a third thread or a resize / tree conversion; distinct = hash(program) x hash(preemptions)",
            assumptions: &["executions are sequentially consistent interleavings: the monitor audits the synchronisation on every reads-from pair that occurs, it does not generate weak-memory behaviours", "a CAS is treated as successful for its release side (adds edges only, cannot cause a false alarm)", "fences inside seize are not modelled"],
            run_shard: c15_shard,
            replay: c15_replay,
            shards: super::sixteen,
            watchdog: wd,
        },
    ]
}
