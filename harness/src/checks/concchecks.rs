//! Checks decided under the serialising scheduler (E2): C01, C08, C13, C11 (+ the concurrent
//! parts of C05 / C04 that ride on the same executions).
use crate::conc::*;
use crate::lin::{self, HEnt, HOp};
use crate::runner::*;
use crate::sched::{Pool, ProbeFn, ProbeSel, Verdict};
use crate::PropDef;
use serde::{Deserialize, Serialize};
use serde_json::Value;

pub type JudgeErr = (String, String);

/// verdicts of the scheduler, faults noticed by worker threads, oracles evaluated by the executor
pub fn base_judge(asked: &str, out: &ConcOut) -> Result<(), JudgeErr> {
    match &out.verdict {
        Some(Verdict::Deadlock(m)) => return Err(("C11".into(), format!("[C11] deadlock: {}", m))),
        Some(Verdict::StepBudget { thread, steps }) => return Err(("C11".into(), format!("[C11] T{} executed {} steps inside one operation without finishing it (livelock)", thread, steps))),
        Some(Verdict::Panic { thread, msg }) => return Err((asked.into(), format!("[{}] T{} panicked inside the map: {}", asked, thread, msg))),
        Some(Verdict::Probe(m)) => return Err((asked.into(), format!("[{}] {}", asked, m))),
        None => {}
    }
    if let Some(f) = out.recs.faults.first() {
        let prop = f.split(':').next().unwrap_or(asked).to_string();
        return Err((prop.clone(), format!("[{}] {}", prop, f)));
    }
    if let Some((p, m)) = &out.oracle_fail {
        return Err((p.to_string(), format!("[{}] {}", p, m)));
    }
    Ok(())
}

/// the single-key history of an execution, with retain calls turned into conditional / forced
/// removals and a final read of every key appended
pub fn history_of(out: &ConcOut) -> Vec<HEnt> {
    let mut ents = out.recs.ops.clone();
    for r in &out.recs.retains {
        for (i, (tag, vid, keep, stamp)) in r.calls.iter().enumerate() {
            if !*keep {
                let resp = r.calls.get(i + 1).map_or(r.resp, |c| c.3);
                ents.push(HEnt { thread: r.thread, inv: *stamp, resp: resp.max(*stamp), key: *tag, op: if r.force { HOp::ForceRemove } else { HOp::CondRemove { v: *vid } } });
            }
        }
    }
    // `clear` is judged per key as up to four removals that may or may not happen inside its
    // interval (it rescans the next table from bin 0 whenever it meets a forwarding marker).  None
    // of them is mandatory: no listed property says what a `clear` that overlaps other operations
    // must remove, and the crate (like the Java original) lets entries of bins that another
    // resizer has claimed but not yet moved survive it (DESIGN.md section 10, item 7)
    if !out.recs.clears.is_empty() {
        let mut ks: Vec<u32> = ents.iter().map(|e| e.key).collect();
        ks.sort();
        ks.dedup();
        for (t, inv, resp) in &out.recs.clears {
            for k in &ks {
                for _ in 0..4 {
                    ents.push(HEnt { thread: *t, inv: *inv, resp: *resp, key: *k, op: HOp::MaybeForceRemove });
                }
            }
        }
    }
    let mut keys: Vec<u32> = ents.iter().map(|e| e.key).collect();
    keys.sort();
    keys.dedup();
    let end = out.end_stamp;
    for k in keys {
        ents.push(HEnt { thread: 255, inv: end, resp: end + 1, key: k, op: HOp::Get { ret: out.fin.get(&k).map(|e| e.1) } });
    }
    ents
}

pub fn lin_judge(prog: &Prog, out: &ConcOut) -> Result<u64, String> {
    let _ = prog;
    let ents = history_of(out);
    let ov = lin::check_history(&ents, |k| out.init.get(&k).map(|e| e.1))?;
    pair_judge(out, true)?;
    Ok(ov)
}

/// Entry coherence: a key instance and a value handed out together (get_key_value, remove_entry,
/// the arguments of a compute_if_present closure or retain predicate, an `iter()` item) must have
/// been the key and the value of ONE entry.  Every value id is written once; the key instance of
/// the entry it was written into follows from that write's own result: an insert / try_insert that
/// found the key absent stores its own key, an insert that replaced `old` or a compute that was
/// shown `seen` writes into the entry of `old` / `seen` ("the key is left unchanged").  Copies of a
/// key made by the map (resize, tree conversion) keep the origin.
pub fn pair_judge(out: &ConcOut, with_iters: bool) -> Result<(), String> {
    use std::collections::HashMap as StdMap;
    let own: StdMap<u64, u32> = out.recs.key_of.iter().copied().collect();
    let mut origin_of: StdMap<u64, u32> = out.init.values().map(|e| (e.1, e.0)).collect();
    // value -> the value whose entry it was written into
    let mut parent: StdMap<u64, u64> = StdMap::new();
    for e in &out.recs.ops {
        match &e.op {
            HOp::Insert { new, ret: None } | HOp::TryInsert { new, ret: Ok(()) } => {
                if let Some(o) = own.get(new) {
                    origin_of.insert(*new, *o);
                }
            }
            HOp::Insert { new, ret: Some(old) } => {
                parent.insert(*new, *old);
            }
            HOp::Compute { seen: Some(s), out: Some(o), .. } => {
                parent.insert(*o, *s);
            }
            _ => {}
        }
    }
    let resolve = |mut v: u64| -> Option<u32> {
        for _ in 0..10_000 {
            if let Some(o) = origin_of.get(&v) {
                return Some(*o);
            }
            v = *parent.get(&v)?;
        }
        None
    };
    let check = |origin: u32, vid: u64, what: &str| -> Result<(), String> {
        match resolve(vid) {
            // a value whose write is not in the history (cannot happen for ids the harness made)
            None => Ok(()),
            Some(o) if o == origin => Ok(()),
            Some(o) => Err(format!("{} handed out key instance #{} together with value {}, which was written into the entry of key instance #{}: that pair was never one entry of the map", what, origin, vid, o)),
        }
    };
    for (o, v, what) in &out.recs.pairs {
        check(*o, *v, what)?;
    }
    if with_iters {
        for it in &out.recs.iters {
            if it.kind == 0 {
                for (_, o, v, _) in &it.yields {
                    check(*o, *v, "iter()")?;
                }
            }
        }
    }
    Ok(())
}

fn crossed(out: &ConcOut) -> (bool, bool) {
    (out.table_len_after != out.table_len_before, out.tree_bins_after != out.tree_bins_before)
}

fn std_classes(out: &ConcOut, overlapping: u64) -> Vec<(&'static str, u64)> {
    let (rs, tr) = crossed(out);
    vec![
        ("schedules_with_overlapping_writes", (overlapping > 0) as u64),
        ("schedules_crossing_resize", rs as u64),
        ("schedules_crossing_tree_conversion", tr as u64),
        ("schedules_where_a_thread_blocked", out.blocked as u64),
        ("schedules_where_a_writer_parked", out.parked as u64),
        ("schedules_with_init_spin", out.spun as u64),
        ("scheduler_steps", out.steps),
        ("references_verified_at_guard_release", out.recs.held_checked),
        ("linearizability_searches_abandoned_as_too_large", lin::ABANDONED.swap(0, std::sync::atomic::Ordering::Relaxed)),
    ]
}

/* ------------------------------- generic concurrent case ------------------------------- */

#[derive(Clone, Debug, Serialize, Deserialize)]
pub struct ConcCase {
    pub prog: Prog,
    /// explicit preemptions (step, thread); None = explore
    pub schedule: Option<Vec<(u64, u8)>>,
    /// the exploration budget (with its seeds) the case was being explored with: recorded in the
    /// in-flight file so that a crashed shard's exploration can be repeated exactly
    #[serde(default, skip_serializing_if = "Option::is_none")]
    pub budget: Option<Budget>,
}

pub struct ConcCheck {
    pub asked: &'static str,
    pub sub: &'static str,
    pub mix: Mix,
    pub max_threads: usize,
    pub max_ops: usize,
    pub opts: ExecOpts,
    pub judge: fn(&Prog, &ConcOut) -> Result<(bool, Vec<(&'static str, u64)>), JudgeErr>,
    pub mk_probe: Option<fn(&Prog, &std::sync::Arc<crate::seq::FMap>, std::sync::Arc<std::sync::Mutex<ProbeData>>) -> (ProbeSel, ProbeFn)>,
}

pub const NO_PROBE: Option<fn(&Prog, &std::sync::Arc<crate::seq::FMap>, std::sync::Arc<std::sync::Mutex<ProbeData>>) -> (ProbeSel, ProbeFn)> = None;

impl ConcCheck {
    fn maker(&self) -> Option<ProbeMaker<'_>> {
        match &self.mk_probe {
            Some(f) => Some(f as ProbeMaker<'_>),
            None => None,
        }
    }
    pub fn run(&self, ctx: &Ctx, pool: &Pool, salt: u64, programs: u32, budget: &Budget, out: &mut ShardOut) {
        let before = out.violations.len();
        let t_start = std::time::Instant::now();
        let strat = prog_strategy(self.mix, self.max_threads, self.max_ops);
        drive_n(ctx, self.sub, ctx.shard_seed(salt), programs, 120, strat, out, |prog| {
            ctx.mark_inflight(self.sub, &serde_json::to_string(&ConcCase { prog: prog.clone(), schedule: None, budget: Some(budget.clone()) }).unwrap());
            let ex = explore(pool, prog, budget, &self.opts, self.maker(), &self.judge);
            match ex.failure {
                Some((sched, prop, msg)) => Err(CaseFail { prop, msg: format!("{} [after preemptions {:?}]", msg, sched.switches) }),
                None => Ok(CaseInfo {
                    nontrivial: !ex.nontrivial_schedules.is_empty(),
                    classes: {
                        let mut c: Vec<(&'static str, u64)> = ex.classes.into_iter().collect();
                        c.push(("programs", 1));
                        c
                    },
                    evaluations: ex.schedules,
                    sub_hashes: ex.nontrivial_schedules,
                }),
            }
        });
        out.class(&format!("wall_ms_of_the_slowest_shard_in_{}", self.sub), 0);
        let ms = t_start.elapsed().as_millis() as u64;
        let key = format!("wall_ms_summed_over_shards_{}", self.sub);
        out.class(&key, ms.max(1));
        // attach the (minimised) failing schedule to the replay file of a new violation
        for v in out.violations.iter_mut().skip(before) {
            if let Some(case) = v.replay.get("case").cloned() {
                if let Ok(prog) = serde_json::from_value::<Prog>(case) {
                    let ex = explore(pool, &prog, budget, &self.opts, self.maker(), &self.judge);
                    if let Some((sched, _, _)) = ex.failure {
                        let min = minimize_schedule(pool, &prog, &sched, &self.opts, self.maker(), &self.judge);
                        v.replay = serde_json::json!({"sub": self.sub, "case": ConcCase { prog, schedule: Some(min.switches), budget: None }});
                    } else {
                        v.replay = serde_json::json!({"sub": self.sub, "case": ConcCase { prog, schedule: None, budget: None }});
                    }
                }
            }
        }
    }

    pub fn replay(&self, pool: &Pool, case: &Value, budget: &Budget) -> Result<(), CaseFail> {
        // accepted: {"prog":..,"schedule":..} or a bare program (in-flight files of crashed shards)
        let cc: ConcCase = match serde_json::from_value::<ConcCase>(case.clone()) {
            Ok(c) => c,
            Err(_) => match serde_json::from_value::<Prog>(case.clone()) {
                Ok(p) => ConcCase { prog: p, schedule: None, budget: None },
                Err(e) => return Err(CaseFail { prop: self.asked.into(), msg: format!("bad replay file: {}", e) }),
            },
        };
        // probed checks look at a window of steps that rotates from execution to execution: a
        // replay tries every rotation so that it does not depend on where the shard's counter stood
        let rotations: u64 = if self.mk_probe.is_some() { 4 } else { 1 };
        for rot in 0..rotations {
            PROBE_ROT.store(rot, std::sync::atomic::Ordering::SeqCst);
            match &cc.schedule {
                Some(sw) => {
                    let spec = SchedSpec { switches: sw.clone(), probe: self.maker(), ..Default::default() };
                    let out = exec(pool, &cc.prog, spec, &self.opts, None);
                    (self.judge)(&cc.prog, &out).map(|_| ()).map_err(|(p, m)| CaseFail { prop: p, msg: m })?;
                }
                None => {
                    let budget = cc.budget.as_ref().unwrap_or(budget);
                    let ex = explore(pool, &cc.prog, budget, &self.opts, self.maker(), &self.judge);
                    if let Some((sched, prop, msg)) = ex.failure {
                        return Err(CaseFail { prop, msg: format!("{} [after preemptions {:?}]", msg, sched.switches) });
                    }
                }
            }
        }
        Ok(())
    }
}

pub fn budget_for(ctx_tier: Tier, seed: u64) -> Budget {
    match ctx_tier {
        Tier::Quick => Budget { single: 400, double: 60, coarse2: 200, tapes: 24, tape_seed: seed, triple: 0, stagger: 0 },
        Tier::Thorough => Budget { single: 4000, double: 2500, coarse2: 2000, tapes: 200, tape_seed: seed, triple: 0, stagger: 0 },
    }
}

/// budget of the helper family: few classic schedules, mostly sampled three-preemption schedules
/// over the control words
pub fn helpers_budget(tier: Tier, seed: u64) -> Budget {
    match tier {
        Tier::Quick => Budget { single: 120, double: 0, coarse2: 60, tapes: 12, tape_seed: seed, triple: 120, stagger: 0 },
        Tier::Thorough => Budget { single: 600, double: 200, coarse2: 400, tapes: 60, tape_seed: seed, triple: 1500, stagger: 0 },
    }
}

/* ------------------------------- C01 ------------------------------- */

fn c01_judge(prog: &Prog, out: &ConcOut) -> Result<(bool, Vec<(&'static str, u64)>), JudgeErr> {
    base_judge("C01", out)?;
    let ov = lin_judge(prog, out).map_err(|m| ("C01".to_string(), format!("[C01] {}", m)))?;
    let (rs, tr) = crossed(out);
    Ok((ov > 0 || rs || tr, std_classes(out, ov)))
}

pub const C01: ConcCheck = ConcCheck {
    asked: "C01",
    sub: "lin",
    mix: Mix::PerKey,
    max_threads: 3,
    max_ops: 3,
    opts: ExecOpts::DEFAULT,
    judge: c01_judge,
    mk_probe: NO_PROBE,
};

/// long programs on 4-8 threads (several resize generations, helpers arriving anywhere), random tapes
pub const C01L: ConcCheck = ConcCheck { sub: "lin-long", mix: Mix::Long, max_threads: 8, max_ops: 12, ..C01 };

pub const C01M: ConcCheck = ConcCheck { sub: "lin-long-mixed", mix: Mix::LongMixed, max_threads: 6, max_ops: 10, ..C01 };
pub const C01H: ConcCheck = ConcCheck { sub: "lin-helpers", mix: Mix::Helpers, max_threads: 4, max_ops: 3, ..C01 };
/// writers, iterations, `len` and `clear` (per-key operations racing a `clear` must still be
/// explainable: every result names a value that was current, nothing is resurrected)
pub const C01R: ConcCheck = ConcCheck { sub: "lin-clear", mix: Mix::Readers, max_threads: 3, max_ops: 3, ..C01 };
pub const C01T: ConcCheck = ConcCheck { sub: "lin-treemove", mix: Mix::TreeMove, max_threads: 3, max_ops: 3, ..C01 };
/// 1-129 threads registered in (or queued on) one crowded bin at the same time, then a writer
pub const C01W: ConcCheck = ConcCheck { sub: "lin-crowd", mix: Mix::Crowd, max_threads: 130, max_ops: 3, ..C01 };
pub const CROWD_WORKERS: usize = 132;
pub fn crowd_budget(tier: Tier, seed: u64) -> Budget {
    Budget { single: 0, double: 0, coarse2: 0, tapes: 0, tape_seed: seed, triple: 0, stagger: match tier { Tier::Quick => 120, Tier::Thorough => 900 } }
}

fn c01_shard(ctx: &Ctx, out: &mut ShardOut) {
    let pool = Pool::new();
    let n = ctx.share(ctx.by_tier(1600, 24_000)) as u32;
    C01.run(ctx, &pool, 1, n, &budget_for(ctx.tier, ctx.shard_seed(77)), out);
    let lb = Budget { single: 0, double: 0, coarse2: 0, tapes: ctx.by_tier(24, 200) as usize, tape_seed: ctx.shard_seed(92), triple: 0, stagger: 0 };
    C01L.run(ctx, &pool, 2, ctx.share(ctx.by_tier(128, 4_000)) as u32, &lb, out);
    C01M.run(ctx, &pool, 3, ctx.share(ctx.by_tier(160, 5_000)) as u32, &lb, out);
    C01H.run(ctx, &pool, 5, ctx.share(ctx.by_tier(160, 3_000)) as u32, &helpers_budget(ctx.tier, ctx.shard_seed(94)), out);
    C01T.run(ctx, &pool, 6, ctx.share(ctx.by_tier(200, 4_000)) as u32, &budget_for(ctx.tier, ctx.shard_seed(95)), out);
    C01R.run(ctx, &pool, 7, ctx.share(ctx.by_tier(320, 5_000)) as u32, &budget_for(ctx.tier, ctx.shard_seed(89)), out);
    c01_set_run(ctx, &pool, out);
    C01F.run(ctx, &pool, 14, ctx.share(ctx.by_tier(240, 4_000)) as u32, &budget_for(ctx.tier, ctx.shard_seed(98)), out);
    drop(pool);
    let big = Pool::with_workers(CROWD_WORKERS);
    C01W.run(ctx, &big, 13, ctx.share(ctx.by_tier(160, 3_000)) as u32, &crowd_budget(ctx.tier, ctx.shard_seed(96)), out);
}

/// concurrent `HashSet` programs through all four facades (setconc.rs)
fn c01_set_run(ctx: &Ctx, pool: &Pool, out: &mut ShardOut) {
    set_run(ctx, pool, out, "lin-set", false, 480, 8_000)
}

/// `walks`: programs also iterate and serialise the set (weak-consistency judge, used by C07)
pub fn set_run(ctx: &Ctx, pool: &Pool, out: &mut ShardOut, sub: &'static str, walks: bool, quick: u64, thorough: u64) {
    use crate::setconc as sc;
    let before = out.violations.len();
    let (single, double, tapes) = (ctx.by_tier(300, 3000) as usize, ctx.by_tier(60, 1500) as usize, ctx.by_tier(16, 120) as usize);
    let seed = ctx.shard_seed(93);
    drive_n(ctx, sub, ctx.shard_seed(4), ctx.share(ctx.by_tier(quick, thorough)) as u32, 120, sc::prog_strategy(3, 3, walks), out, |prog| {
        ctx.mark_inflight(sub, &serde_json::to_string(&sc::SetCase { prog: prog.clone(), schedule: None, budget: Some((single, double, tapes, seed)) }).unwrap());
        let ex = sc::explore(pool, prog, single, double, tapes, seed);
        match ex.failure {
            Some((sw, prop, msg)) => Err(CaseFail { prop, msg: format!("{} [after preemptions {:?}]", msg, sw) }),
            None => Ok(CaseInfo {
                nontrivial: !ex.nontrivial.is_empty(),
                classes: {
                    let mut c: Vec<(&'static str, u64)> = ex.classes.into_iter().collect();
                    c.push(("set_programs", 1));
                    c
                },
                evaluations: ex.schedules,
                sub_hashes: ex.nontrivial,
            }),
        }
    });
    for v in out.violations.iter_mut().skip(before) {
        if let Some(case) = v.replay.get("case").cloned() {
            if let Ok(prog) = serde_json::from_value::<sc::SetProg>(case) {
                let ex = sc::explore(pool, &prog, single, double, tapes, seed);
                let schedule = ex.failure.map(|(sw, _, _)| sc::minimize(pool, &prog, &sw));
                v.replay = serde_json::json!({"sub": sub, "case": sc::SetCase { prog, schedule, budget: None }});
            }
        }
    }
}

pub fn c01_set_replay(pool: &Pool, case: &Value) -> Result<(), CaseFail> {
    use crate::setconc as sc;
    let cc: sc::SetCase = match serde_json::from_value::<sc::SetCase>(case.clone()) {
        Ok(c) => c,
        Err(_) => match serde_json::from_value::<sc::SetProg>(case.clone()) {
            Ok(p) => sc::SetCase { prog: p, schedule: None, budget: None },
            Err(e) => return Err(CaseFail { prop: "C01".into(), msg: format!("bad replay file: {}", e) }),
        },
    };
    match &cc.schedule {
        Some(sw) => sc::judge(&sc::exec(pool, &cc.prog, sw.clone(), None, false)).map(|_| ()).map_err(|(p, m)| CaseFail { prop: p, msg: m }),
        None => match { let (a, b, c, d) = cc.budget.unwrap_or((3000, 1500, 120, 1)); sc::explore(pool, &cc.prog, a, b, c, d) }.failure {
            Some((sw, prop, msg)) => Err(CaseFail { prop, msg: format!("{} [after preemptions {:?}]", msg, sw) }),
            None => Ok(()),
        },
    }
}
fn c01_replay(sub: &str, case: &Value) -> Result<(), CaseFail> {
    let pool = Pool::new();
    if sub == "lin-long" {
        return C01L.replay(&pool, case, &Budget { single: 0, double: 0, coarse2: 0, tapes: 200, tape_seed: 1, triple: 0, stagger: 0 });
    }
    if sub == "lin-long-mixed" {
        return C01M.replay(&pool, case, &Budget { single: 0, double: 0, coarse2: 0, tapes: 200, tape_seed: 1, triple: 0, stagger: 0 });
    }
    if sub == "lin-set" {
        return c01_set_replay(&pool, case);
    }
    if sub == "lin-helpers" {
        return C01H.replay(&pool, case, &helpers_budget(Tier::Thorough, 1));
    }
    if sub == "lin-clear" {
        return C01R.replay(&pool, case, &budget_for(Tier::Thorough, 1));
    }
    if sub == "lin-treemove" {
        return C01T.replay(&pool, case, &budget_for(Tier::Thorough, 1));
    }
    if sub == "lin-first" {
        return C01F.replay(&pool, case, &budget_for(Tier::Thorough, 1));
    }
    if sub == "lin-crowd" {
        return C01W.replay(&Pool::with_workers(CROWD_WORKERS), case, &crowd_budget(Tier::Thorough, 1));
    }
    C01.replay(&pool, case, &budget_for(Tier::Thorough, 1))
}

/* ------------------------------- C05 / C04 concurrent parts ------------------------------- */

fn c05c_judge(_prog: &Prog, out: &ConcOut) -> Result<(bool, Vec<(&'static str, u64)>), JudgeErr> {
    base_judge("C05", out)?;
    let (rs, tr) = crossed(out);
    Ok((rs || tr, std_classes(out, 0)))
}
pub const C05C: ConcCheck = ConcCheck { asked: "C05", sub: "conc", mix: Mix::Readers, max_threads: 3, max_ops: 3, opts: C01.opts, judge: c05c_judge, mk_probe: NO_PROBE };
pub const C05R: ConcCheck = ConcCheck { asked: "C05", sub: "conc-resize", mix: Mix::Resize, max_threads: 3, max_ops: 3, opts: C01.opts, judge: c05c_judge, mk_probe: NO_PROBE };
pub const C05H: ConcCheck = ConcCheck { asked: "C05", sub: "conc-helpers", mix: Mix::Helpers, max_threads: 4, max_ops: 3, opts: C01.opts, judge: c05c_judge, mk_probe: NO_PROBE };
pub const C05T: ConcCheck = ConcCheck { asked: "C05", sub: "conc-treemove", mix: Mix::TreeMove, max_threads: 3, max_ops: 3, opts: C01.opts, judge: c05c_judge, mk_probe: NO_PROBE };
pub const C05A: ConcCheck = ConcCheck { asked: "C05", sub: "conc-retain", mix: Mix::Retain, max_threads: 3, max_ops: 3, opts: C01.opts, judge: c05c_judge, mk_probe: NO_PROBE };
pub const C05D: ConcCheck = ConcCheck { asked: "C05", sub: "conc-drain", mix: Mix::Drain, max_threads: 3, max_ops: 3, opts: C01.opts, judge: c05c_judge, mk_probe: NO_PROBE };
pub const C05K: ConcCheck = ConcCheck { asked: "C05", sub: "conc-perkey", mix: Mix::PerKey, max_threads: 3, max_ops: 3, opts: C01.opts, judge: c05c_judge, mk_probe: NO_PROBE };
pub const C05U: ConcCheck = ConcCheck { asked: "C05", sub: "conc-compute", mix: Mix::Compute, max_threads: 3, max_ops: 3, opts: C01.opts, judge: c05c_judge, mk_probe: NO_PROBE };
pub const C05W: ConcCheck = ConcCheck { asked: "C05", sub: "conc-crowd", mix: Mix::Crowd, max_threads: 130, max_ops: 3, opts: C01.opts, judge: c05c_judge, mk_probe: NO_PROBE };
pub const C05_EXTRA: [&ConcCheck; 4] = [&C05A, &C05D, &C05K, &C05U];
pub const C05L: ConcCheck = ConcCheck { asked: "C05", sub: "conc-long", mix: Mix::Long, max_threads: 8, max_ops: 12, opts: C01.opts, judge: c05c_judge, mk_probe: NO_PROBE };

fn c04c_judge(_prog: &Prog, out: &ConcOut) -> Result<(bool, Vec<(&'static str, u64)>), JudgeErr> {
    base_judge("C04", out)?;
    Ok((out.reclaimed_during_run > 0, {
        let mut c = std_classes(out, 0);
        c.push(("schedules_reclaiming_during_the_run", (out.reclaimed_during_run > 0) as u64));
        c
    }))
}
pub const C04C: ConcCheck = ConcCheck {
    asked: "C04",
    sub: "conc",
    mix: Mix::PerKey,
    max_threads: 3,
    max_ops: 3,
    opts: ExecOpts { ledger_check: true, ..ExecOpts::DEFAULT },
    judge: c04c_judge,
    mk_probe: NO_PROBE,
};

/// the same ledger oracle over the families in which values are cleared, retained away, migrated
/// by a resize, or drained from a bin that is being treeified
pub const C04R: ConcCheck = ConcCheck { sub: "conc-clear", mix: Mix::Readers, ..C04C };
pub const C04T: ConcCheck = ConcCheck { sub: "conc-retain", mix: Mix::Retain, ..C04C };
pub const C04Z: ConcCheck = ConcCheck { sub: "conc-resize", mix: Mix::Resize, ..C04C };
pub const C04D: ConcCheck = ConcCheck { sub: "conc-drain", mix: Mix::Drain, ..C04C };
pub const C04H: ConcCheck = ConcCheck { sub: "conc-helpers", mix: Mix::Helpers, max_threads: 4, ..C04C };
pub const C04M: ConcCheck = ConcCheck { sub: "conc-treemove", mix: Mix::TreeMove, ..C04C };
pub const C04U: ConcCheck = ConcCheck { sub: "conc-compute", mix: Mix::Compute, ..C04C };
pub const C04W: ConcCheck = ConcCheck { sub: "conc-crowd", mix: Mix::Crowd, max_threads: 130, ..C04C };
pub const C04F: ConcCheck = ConcCheck { sub: "conc-first", mix: Mix::FirstOps, max_threads: 4, ..C04C };
pub const C04L: ConcCheck = ConcCheck { sub: "conc-long-mixed", mix: Mix::LongMixed, max_threads: 6, max_ops: 10, ..C04C };
pub const C04_ALL: [&ConcCheck; 9] = [&C04C, &C04R, &C04T, &C04Z, &C04D, &C04M, &C04U, &C04F, &C04H];

/* ------------------------------- first operations on an unallocated map ------------------------------- */

pub const C01F: ConcCheck = ConcCheck { sub: "lin-first", mix: Mix::FirstOps, max_threads: 4, max_ops: 3, ..C01 };
pub const C05F: ConcCheck = ConcCheck { asked: "C05", sub: "conc-first", mix: Mix::FirstOps, max_threads: 4, max_ops: 3, opts: C01.opts, judge: c05c_judge, mk_probe: NO_PROBE };

/// C14 after concurrent histories: whatever the threads did (lazy initialisation racing `reserve`,
/// resizes, bulk removals), the table that is left must honour the growth rule: fresh keys inserted
/// from the main thread do not grow it before the count reaches three quarters of its length
/// (`ExecOpts::post_capacity`), and the idle `size_ctl` is that threshold (inspector)
fn c14c_judge(_prog: &Prog, out: &ConcOut) -> Result<(bool, Vec<(&'static str, u64)>), JudgeErr> {
    base_judge("C14", out)?;
    let (rs, _) = crossed(out);
    let mut c = std_classes(out, 0);
    c.push(("schedules_that_allocated_or_resized_the_table", rs as u64));
    Ok((rs, c))
}
pub const C14F: ConcCheck = ConcCheck { asked: "C14", sub: "cap-first", mix: Mix::FirstOps, max_threads: 4, max_ops: 3, opts: ExecOpts { post_capacity: true, ..ExecOpts::DEFAULT }, judge: c14c_judge, mk_probe: NO_PROBE };
pub const C14Z: ConcCheck = ConcCheck { sub: "cap-resize", mix: Mix::Resize, max_threads: 3, ..C14F };
pub const C14H: ConcCheck = ConcCheck { sub: "cap-helpers", mix: Mix::Helpers, max_threads: 4, ..C14F };

/* ------------------------------- C06 (after concurrent histories) ------------------------------- */

/// A tree bin must still answer lookups in O(log n) comparisons after writers and readers contended
/// for it (the state of its lock word decides whether readers may use the tree at all), migrated
/// it, or converted it: counted after the run, key by key (`ExecOpts::cmp_bound`)
fn c06c_judge(prog: &Prog, out: &ConcOut) -> Result<(bool, Vec<(&'static str, u64)>), JudgeErr> {
    base_judge("C06", out)?;
    // a lookup that shares its tree bin with other READERS only must still be logarithmic: in a
    // program without any update nobody holds or awaits the tree's write lock, so the linear
    // fallback is never justified (the structure is the one found after the run)
    let read_only = !prog.has(|o| !matches!(o, COp::Get(_) | COp::GetKV(_) | COp::Contains(_)));
    let mut measured = 0u64;
    if read_only && out.table_len_after >= 64 && out.table_len_after == out.table_len_before {
        let mask = out.table_len_after as u64 - 1;
        for (t, tag, c) in &out.recs.lookup_cmps {
            let b = (prog.cfg.hmode.hash_tag(*tag) & mask) as usize;
            if let Some((true, n)) = out.bins_after.get(&b) {
                if *n >= 8 {
                    measured += 1;
                    let bound = (4.0 * ((*n + 1) as f64).log2()).ceil() as u64 + 2;
                    if *c > bound {
                        return Err(("C06".into(), format!("[C06] the lookup of key {} by T{} in a tree bin of {} colliding keys cost {} key comparisons (bound {}) although only other lookups were running: the bin was searched linearly", tag, t, n, c, bound)));
                    }
                }
            }
        }
    }
    let (_, tr) = crossed(out);
    let mut c = std_classes(out, 0);
    c.push(("schedules_ending_with_a_tree_bin", (out.tree_bins_after > 0) as u64));
    c.push(("lookups_among_readers_whose_comparisons_were_counted", measured));
    Ok((out.tree_bins_after > 0 && (out.parked || out.blocked || tr), c))
}
pub const C06T: ConcCheck = ConcCheck { asked: "C06", sub: "tree-conc", mix: Mix::TreeMove, max_threads: 3, max_ops: 3, opts: ExecOpts { cmp_bound: true, ..ExecOpts::DEFAULT }, judge: c06c_judge, mk_probe: NO_PROBE };
pub const C06W: ConcCheck = ConcCheck { sub: "tree-crowd", mix: Mix::Crowd, max_threads: 130, ..C06T };
pub const C06D: ConcCheck = ConcCheck { sub: "tree-drain", mix: Mix::Drain, ..C06T };

/* ------------------------------- C08 ------------------------------- */

fn c08_judge(prog: &Prog, out: &ConcOut) -> Result<(bool, Vec<(&'static str, u64)>), JudgeErr> {
    base_judge("C08", out)?;
    for (t, inv, calls) in &out.recs.compute_calls {
        if *calls > 1 {
            return Err(("C08".into(), format!("[C08] the compute_if_present call of T{} invoked at step {} ran its closure {} times", t, inv, calls)));
        }
    }
    let ov = lin_judge(prog, out).map_err(|m| ("C08".to_string(), format!("[C08] {}", m)))?;
    // counter oracle: on a key that only sees increments, final payload = initial + successful increments
    let mut classes = std_classes(out, ov);
    let mut overlapping_computes = 0u64;
    for k in prog.keys_used() {
        let tag = hot_tag(k);
        let on_key: Vec<&HEnt> = out.recs.ops.iter().filter(|e| e.key == tag).collect();
        let only_inc = on_key.iter().all(|e| match &e.op {
            HOp::Get { .. } | HOp::Contains { .. } => true,
            HOp::Compute { out: o, seen, .. } => seen.is_none() || o.is_some(),
            _ => false,
        }) && !prog.has(|o| matches!(o, COp::Compute(kk, a) if *kk == k && *a != crate::model::Act::Inc))
            && !prog.has(|o| matches!(o, COp::Retain(_) | COp::RetainForce(_) | COp::Clear));
        let computes: Vec<&&HEnt> = on_key.iter().filter(|e| matches!(e.op, HOp::Compute { .. })).collect();
        for a in &computes {
            for b in &computes {
                if a.thread < b.thread && a.inv < b.resp && b.inv < a.resp {
                    overlapping_computes += 1;
                }
            }
        }
        if only_inc {
            if let (Some(i), Some(f)) = (out.init.get(&tag), out.fin.get(&tag)) {
                let incs = on_key.iter().filter(|e| matches!(&e.op, HOp::Compute { seen: Some(_), out: Some(_), .. })).count() as u64;
                if f.2 != i.2 + incs {
                    return Err(("C08".into(), format!("[C08] key {}: counter started at {}, {} increments reported success, final value {} (lost update)", tag, i.2, incs, f.2)));
                }
            }
        }
    }
    classes.push(("schedules_with_overlapping_computes", (overlapping_computes > 0) as u64));
    Ok((overlapping_computes > 0, classes))
}

pub const C08: ConcCheck = ConcCheck { asked: "C08", sub: "rmw", mix: Mix::Compute, max_threads: 3, max_ops: 3, opts: C01.opts, judge: c08_judge, mk_probe: NO_PROBE };

pub const C08T: ConcCheck = ConcCheck { sub: "rmw-treemove", mix: Mix::TreeMove, ..C08 };
/// the same oracle (closure ran at most once per call, per-key linearizability of the
/// read-modify-write, counter sum) where the updated node is being migrated: by several helpers,
/// by one resizer among removals and bulk removals, and in long random-tape histories
pub const C08H: ConcCheck = ConcCheck { sub: "rmw-helpers", mix: Mix::Helpers, max_threads: 4, ..C08 };
pub const C08Z: ConcCheck = ConcCheck { sub: "rmw-resize", mix: Mix::Resize, ..C08 };
pub const C08M: ConcCheck = ConcCheck { sub: "rmw-long-mixed", mix: Mix::LongMixed, max_threads: 6, max_ops: 10, ..C08 };
const C08_LONG: Budget = Budget { single: 0, double: 0, coarse2: 0, tapes: 200, tape_seed: 1, triple: 0, stagger: 0 };
fn c08_shard(ctx: &Ctx, out: &mut ShardOut) {
    let pool = Pool::new();
    let n = ctx.share(ctx.by_tier(1500, 20_000)) as u32;
    C08.run(ctx, &pool, 8, n, &budget_for(ctx.tier, ctx.shard_seed(78)), out);
    C08T.run(ctx, &pool, 9, ctx.share(ctx.by_tier(320, 5_000)) as u32, &budget_for(ctx.tier, ctx.shard_seed(79)), out);
    C08H.run(ctx, &pool, 10, ctx.share(ctx.by_tier(160, 3_000)) as u32, &helpers_budget(ctx.tier, ctx.shard_seed(80)), out);
    C08Z.run(ctx, &pool, 11, ctx.share(ctx.by_tier(240, 4_000)) as u32, &budget_for(ctx.tier, ctx.shard_seed(81)), out);
    let lb = Budget { tapes: ctx.by_tier(24, 200) as usize, tape_seed: ctx.shard_seed(82), ..C08_LONG };
    C08M.run(ctx, &pool, 12, ctx.share(ctx.by_tier(160, 5_000)) as u32, &lb, out);
}
fn c08_replay(sub: &str, case: &Value) -> Result<(), CaseFail> {
    let pool = Pool::new();
    if sub == "rmw-treemove" {
        return C08T.replay(&pool, case, &budget_for(Tier::Thorough, 1));
    }
    if sub == "rmw-helpers" {
        return C08H.replay(&pool, case, &helpers_budget(Tier::Thorough, 1));
    }
    if sub == "rmw-resize" {
        return C08Z.replay(&pool, case, &budget_for(Tier::Thorough, 1));
    }
    if sub == "rmw-long-mixed" {
        return C08M.replay(&pool, case, &C08_LONG);
    }
    C08.replay(&pool, case, &budget_for(Tier::Thorough, 1))
}

/* ------------------------------- C13 ------------------------------- */

fn c13_judge(prog: &Prog, out: &ConcOut) -> Result<(bool, Vec<(&'static str, u64)>), JudgeErr> {
    base_judge("C13", out)?;
    let ov = lin_judge(prog, out).map_err(|m| ("C13".to_string(), format!("[C13] {}", m)))?;
    // non-trivial: a write to an inspected key fell between the predicate's verdict and the removal attempt
    let mut raced = 0u64;
    let mut rejected = 0u64;
    for r in &out.recs.retains {
        for (i, (tag, _vid, keep, stamp)) in r.calls.iter().enumerate() {
            if !*keep {
                rejected += 1;
            }
            let until = r.calls.get(i + 1).map_or(r.resp, |c| c.3);
            if out.recs.ops.iter().any(|e| e.key == *tag && lin::is_write(&e.op) && e.thread != r.thread && e.inv < until && e.resp > stamp.saturating_sub(40)) {
                raced += 1;
            }
        }
    }
    let mut classes = std_classes(out, ov);
    classes.push(("schedules_with_write_racing_an_inspected_key", (raced > 0) as u64));
    classes.push(("rejected_pairs", rejected));
    Ok((raced > 0 && rejected > 0, classes))
}

pub const C13: ConcCheck = ConcCheck { asked: "C13", sub: "retain", mix: Mix::Retain, max_threads: 3, max_ops: 3, opts: C01.opts, judge: c13_judge, mk_probe: NO_PROBE };

/// bulk removals racing one and several consecutive resizes (a removal that waited for a bin lock
/// across a whole resize must follow the forwarding markers generation by generation), and racing
/// the first operations on an unallocated map
pub const C13Z: ConcCheck = ConcCheck { sub: "retain-resize", mix: Mix::Resize, ..C13 };
pub const C13F: ConcCheck = ConcCheck { sub: "retain-first", mix: Mix::FirstOps, max_threads: 4, ..C13 };
pub const C13M: ConcCheck = ConcCheck { sub: "retain-long", mix: Mix::LongReaders, max_threads: 6, max_ops: 10, ..C13 };
fn c13_shard(ctx: &Ctx, out: &mut ShardOut) {
    let pool = Pool::new();
    let n = ctx.share(ctx.by_tier(1000, 15_000)) as u32;
    C13.run(ctx, &pool, 13, n, &budget_for(ctx.tier, ctx.shard_seed(79)), out);
    C13Z.run(ctx, &pool, 14, ctx.share(ctx.by_tier(320, 6_000)) as u32, &budget_for(ctx.tier, ctx.shard_seed(70)), out);
    C13F.run(ctx, &pool, 15, ctx.share(ctx.by_tier(240, 4_000)) as u32, &budget_for(ctx.tier, ctx.shard_seed(71)), out);
    let lb = Budget { single: 0, double: 0, coarse2: 0, tapes: ctx.by_tier(24, 200) as usize, tape_seed: ctx.shard_seed(72), triple: 0, stagger: 0 };
    C13M.run(ctx, &pool, 16, ctx.share(ctx.by_tier(128, 4_000)) as u32, &lb, out);
    // the set wrappers' retain (must stay a conditional removal: an element taken out and inserted
    // again between the predicate's verdict and the removal is a different entry)
    set_run(ctx, &pool, out, "retain-set", false, 400, 6_000);
    // sequential agreement with the standard retain is part of C02's operation set; here a small
    // dedicated slice so that C13 does not depend on another check
    let or = crate::seq::Oracles { returns: true, ..Default::default() };
    let strat = crate::model::seq_case_strategy(false, 60);
    drive(ctx, "seq", ctx.shard_seed(14), ctx.share(ctx.by_tier(400, 10_000)) as u32, strat, out, |c| {
        let n_ret = c.ops.iter().filter(|o| matches!(o, crate::model::Op::Retain(_) | crate::model::Op::RetainForce(_))).count();
        crate::seq::run_map_case(c, or).map_err(|f| CaseFail { prop: "C13".into(), msg: format!("[{}] step {}: {}", f.prop, f.step, f.msg) })?;
        Ok(CaseInfo { nontrivial: false, classes: vec![("sequential_cases_with_retain", (n_ret > 0) as u64)], evaluations: 1, sub_hashes: vec![] })
    });
    super::seqchecks::run_big(ctx, out, "C13", or, 5);
}
fn c13_replay(sub: &str, case: &Value) -> Result<(), CaseFail> {
    if sub == "seq" || sub == "map" {
        let c: crate::model::SeqCase = serde_json::from_value(case.clone()).map_err(|e| CaseFail { prop: "C13".into(), msg: format!("bad replay file: {}", e) })?;
        return crate::seq::run_map_case(&c, crate::seq::Oracles { returns: true, ..Default::default() }).map(|_| ()).map_err(|f| CaseFail { prop: "C13".into(), msg: f.msg });
    }
    let pool = Pool::new();
    match sub {
        "retain-set" => c01_set_replay(&pool, case),
        "retain-resize" => C13Z.replay(&pool, case, &budget_for(Tier::Thorough, 1)),
        "retain-first" => C13F.replay(&pool, case, &budget_for(Tier::Thorough, 1)),
        "retain-long" => C13M.replay(&pool, case, &Budget { single: 0, double: 0, coarse2: 0, tapes: 200, tape_seed: 1, triple: 0, stagger: 0 }),
        _ => C13.replay(&pool, case, &budget_for(Tier::Thorough, 1)),
    }
}

/* ------------------------------- C18 (concurrent part) ------------------------------- */

fn c18_judge(prog: &Prog, out: &ConcOut) -> Result<(bool, Vec<(&'static str, u64)>), JudgeErr> {
    base_judge("C18", out)?;
    // the removals a retain decided before its predicate panicked must have been carried out, a
    // panicking compute must have changed nothing, and every other call must still be explainable
    let ov = lin_judge(prog, out).map_err(|m| ("C18".to_string(), format!("[C18] after {} propagated callback panic(s): {}", out.recs.panics, m)))?;
    let mut c = std_classes(out, ov);
    c.push(("schedules_with_a_propagated_callback_panic", (out.recs.panics > 0) as u64));
    Ok((out.recs.panics > 0 && ov > 0, c))
}
pub const C18P: ConcCheck = ConcCheck { asked: "C18", sub: "panic-conc", mix: Mix::Panics, max_threads: 3, max_ops: 3, opts: ExecOpts { ledger_check: true, ..ExecOpts::DEFAULT }, judge: c18_judge, mk_probe: NO_PROBE };
pub fn c18_conc_run(ctx: &Ctx, out: &mut ShardOut) {
    let pool = Pool::new();
    C18P.run(ctx, &pool, 18, ctx.share(ctx.by_tier(400, 6_000)) as u32, &budget_for(ctx.tier, ctx.shard_seed(88)), out);
}
pub fn c18_conc_replay(case: &Value) -> Result<(), CaseFail> {
    C18P.replay(&Pool::new(), case, &budget_for(Tier::Thorough, 1))
}

/* ------------------------------- C11 ------------------------------- */

fn c11_judge(_prog: &Prog, out: &ConcOut) -> Result<(bool, Vec<(&'static str, u64)>), JudgeErr> {
    base_judge("C11", out)?;
    Ok((out.blocked || out.parked || out.spun, std_classes(out, 0)))
}

pub const C11: ConcCheck = ConcCheck {
    asked: "C11",
    sub: "term",
    mix: Mix::Readers,
    max_threads: 3,
    max_ops: 3,
    opts: ExecOpts { hold_refs: false, ..ExecOpts::DEFAULT },
    judge: c11_judge,
    mk_probe: NO_PROBE,
};
pub const C11B: ConcCheck = ConcCheck { sub: "term-perkey", mix: Mix::PerKey, ..C11 };
pub const C11L: ConcCheck = ConcCheck { sub: "term-long", mix: Mix::Long, max_threads: 8, max_ops: 12, ..C11 };
pub const C11C: ConcCheck = ConcCheck { sub: "term-resize", mix: Mix::Resize, ..C11 };
pub const C11H: ConcCheck = ConcCheck { sub: "term-helpers", mix: Mix::Helpers, max_threads: 4, ..C11 };
pub const C11T: ConcCheck = ConcCheck { sub: "term-treemove", mix: Mix::TreeMove, ..C11 };
pub const C11A: ConcCheck = ConcCheck { sub: "term-retain", mix: Mix::Retain, ..C11 };
pub const C11D: ConcCheck = ConcCheck { sub: "term-drain", mix: Mix::Drain, ..C11 };
pub const C11U: ConcCheck = ConcCheck { sub: "term-compute", mix: Mix::Compute, ..C11 };
/// up to 129 threads registered in / queued on one bin (tree-bin readers, bin-lock waiters) and a writer
pub const C11F: ConcCheck = ConcCheck { sub: "term-first", mix: Mix::FirstOps, max_threads: 4, ..C11 };
pub const C11W: ConcCheck = ConcCheck { sub: "term-crowd", mix: Mix::Crowd, max_threads: 130, ..C11 };

fn c11_shard(ctx: &Ctx, out: &mut ShardOut) {
    let pool = Pool::new();
    let b = budget_for(ctx.tier, ctx.shard_seed(80));
    C11.run(ctx, &pool, 11, ctx.share(ctx.by_tier(500, 6_000)) as u32, &b, out);
    C11B.run(ctx, &pool, 12, ctx.share(ctx.by_tier(500, 6_000)) as u32, &b, out);
    C11C.run(ctx, &pool, 15, ctx.share(ctx.by_tier(300, 4_000)) as u32, &b, out);
    let lb = Budget { single: 0, double: 0, coarse2: 0, tapes: ctx.by_tier(24, 200) as usize, tape_seed: ctx.shard_seed(93), triple: 0, stagger: 0 };
    C11L.run(ctx, &pool, 19, ctx.share(ctx.by_tier(96, 3_000)) as u32, &lb, out);
    C11T.run(ctx, &pool, 20, ctx.share(ctx.by_tier(300, 4_000)) as u32, &b, out);
    C11A.run(ctx, &pool, 22, ctx.share(ctx.by_tier(160, 3_000)) as u32, &b, out);
    C11D.run(ctx, &pool, 23, ctx.share(ctx.by_tier(96, 2_000)) as u32, &b, out);
    C11U.run(ctx, &pool, 24, ctx.share(ctx.by_tier(160, 3_000)) as u32, &b, out);
    C11H.run(ctx, &pool, 21, ctx.share(ctx.by_tier(128, 2_000)) as u32, &helpers_budget(ctx.tier, ctx.shard_seed(96)), out);
    C11F.run(ctx, &pool, 26, ctx.share(ctx.by_tier(200, 3_000)) as u32, &b, out);
    drop(pool);
    C11W.run(ctx, &Pool::with_workers(CROWD_WORKERS), 25, ctx.share(ctx.by_tier(160, 3_000)) as u32, &crowd_budget(ctx.tier, ctx.shard_seed(97)), out);
}
fn c11_replay(sub: &str, case: &Value) -> Result<(), CaseFail> {
    let pool = Pool::new();
    let b = budget_for(Tier::Thorough, 1);
    match sub {
        "term-perkey" => C11B.replay(&pool, case, &b),
        "term-resize" => C11C.replay(&pool, case, &b),
        "term-treemove" => C11T.replay(&pool, case, &b),
        "term-retain" => C11A.replay(&pool, case, &b),
        "term-drain" => C11D.replay(&pool, case, &b),
        "term-compute" => C11U.replay(&pool, case, &b),
        "term-helpers" => C11H.replay(&pool, case, &helpers_budget(Tier::Thorough, 1)),
        "term-first" => C11F.replay(&pool, case, &b),
        "term-crowd" => C11W.replay(&Pool::with_workers(CROWD_WORKERS), case, &crowd_budget(Tier::Thorough, 1)),
        "term-long" => C11L.replay(&pool, case, &Budget { single: 0, double: 0, coarse2: 0, tapes: 200, tape_seed: 1, triple: 0, stagger: 0 }),
        _ => C11.replay(&pool, case, &b),
    }
}

pub fn defs() -> Vec<PropDef> {
    let wd: fn(Tier) -> u64 = |t| if t == Tier::Quick { 1500 } else { 8 * 3600 };
    vec![
        PropDef {
            id: "C01",
            level: "exploration",
            rule: "proptest-generated 2-3 thread programs over get/get_key_value/contains_key/insert/try_insert/remove/remove_entry/compute_if_present on 1-3 hot keys (initial states: near the resize threshold, 7/8-node list bin, tree bin, empty, uninitialised table), each executed under the serialising scheduler for all 0- and 1-preemption schedules (sampled above 400), a budgeted set of 2-preemption schedules and random sparse tapes; plus long programs (4-8 threads x 6-12 ops, random tapes only), programs around multi-helper resizes (sampled three-preemption schedules on the control words), tree bins migrating to either half, writers racing clear/iteration/serialisation/extend, the first operations on an unallocated map, crowd programs (1-129 single-operation threads staggered into one bin plus a writer) and 2-3 thread HashSet programs (insert/remove/take/contains/get/retain through the guard, pin() and with_guard() facades; cell value = stored key instance); oracle = per-key Wing-Gong linearizability of the recorded history incl. a final read of every key (items of extend are blind writes; a search beyond 3 million configurations or 127 operations per key is abandoned and counts as explained), entry coherence (a key instance handed out with a value must be the key of the entry the value was written into), plus quiescent agreement; evaluations = (program, schedule) executions; non-trivial = two operations of different threads on one key overlapped with at least one write, or the execution crossed a resize or tree conversion; distinct = hash(program) x hash(preemptions performed)",
            assumptions: &["executions are sequentially consistent interleavings at the granularity of flurry's instrumented atomic operations and lock acquisitions; seize and parking_lot internals run atomically between two such points", "schedules with more than two preemptions are only sampled"],
            run_shard: c01_shard,
            replay: c01_replay,
            shards: super::sixteen,
            watchdog: wd,
        },
        PropDef {
            id: "C08",
            level: "exploration",
            rule: "as C01 but programs dominated by compute_if_present (increment / set / remove) on one hot key and its bin neighbours, mixed with insert/try_insert/remove/get; oracles: closure invoked at most once per call, the call linearizes as a read-modify-write at a point where the cell holds exactly the value the closure saw (Wing-Gong search), and on increment-only keys final = initial + successful increments; non-trivial = two compute_if_present calls on one key overlapped in time; distinct = hash(program) x hash(preemptions)",
            assumptions: &["as C01"],
            run_shard: c08_shard,
            replay: c08_replay,
            shards: super::sixteen,
            watchdog: wd,
        },
        PropDef {
            id: "C13",
            level: "exploration",
            rule: "generated programs in which thread 0 runs retain(f) or retain_force(f) with a generated predicate while 1-2 other threads insert/replace/remove/compute the inspected keys, explored like C01; every rejected pair (k, v) becomes a conditional removal of k-if-still-v (retain) or an unconditional removal (retain_force) that must linearize between the predicate's return and the next predicate call; accepted pairs contribute nothing, so removing them, removing a replaced value, or failing to force-remove is unexplainable; the same judge over programs with single and consecutive resizes (retain-resize), the first operations on an unallocated map (retain-first), long random-tape histories (retain-long) and concurrent HashSet programs (retain-set); plus sequential agreement with BTreeMap::retain; non-trivial = a concurrent write to an inspected key overlapped the window between verdict and removal and at least one pair was rejected",
            assumptions: &["as C01", "predicates are pure functions of (key, value)"],
            run_shard: c13_shard,
            replay: c13_replay,
            shards: super::sixteen,
            watchdog: wd,
        },
        PropDef {
            id: "C11",
            level: "exploration",
            rule: "all schedules explored for three program families (readers+writers+iterators+clear on hot list/tree bins; per-key operations; inserts/reserve around the resize threshold and on an uninitialised table); oracle: no execution ends with unfinished threads that are all blocked on a bin lock or parked without a pending unpark (exact deadlock / lost-wake-up detection), and no operation exceeds 200000 scheduler steps; non-trivial = some thread actually blocked on a lock, parked as a waiting tree writer, or spun in table initialisation during the execution",
            assumptions: &["bounded liveness: small programs, every explored schedule lets each thread run to completion after its last preemption (fair); not a proof for all fair schedules", "as C01"],
            run_shard: c11_shard,
            replay: c11_replay,
            shards: super::sixteen,
            watchdog: wd,
        },
    ]
}
