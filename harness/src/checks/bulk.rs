//! E7 / C19: the optional serde and rayon paths.
use crate::model::hmode_strategy;
use crate::runner::*;
use crate::types::*;
use crate::PropDef;
use proptest::prelude::*;
use rayon::prelude::*;
use serde::{Deserialize, Serialize};
use serde_json::Value;
use std::collections::{BTreeMap, BTreeSet};
use std::panic::{catch_unwind, AssertUnwindSafe};

type SM = flurry::HashMap<String, u32, HB>;
type SS = flurry::HashSet<String, HB>;
type UM = flurry::HashMap<u32, u32, HB>;
type US = flurry::HashSet<u32, HB>;

#[derive(Clone, Debug, Serialize, Deserialize)]
pub enum Tok {
    /// "key": number
    Pair(u8, u32),
    /// "key": <something that is not a u32>
    BadValue(u8, u8),
}

#[derive(Clone, Debug, Serialize, Deserialize)]
pub struct DocCase {
    pub hmode: HMode,
    pub toks: Vec<Tok>,
    /// 0 = none, 1 = truncated, 2 = trailing garbage, 3 = array instead of object
    pub damage: u8,
    pub whitespace: bool,
}

fn key_name(k: u8) -> String {
    // small alphabet, includes the empty string, an escape and a multi-byte character
    match k % 10 {
        0 => "a".into(),
        1 => "b".into(),
        2 => "".into(),
        3 => "a\\\"q".into(),
        4 => "\u{e9}".into(),
        5 => "key5".into(),
        6 => "k\\n".into(),
        7 => "0".into(),
        8 => "aa".into(),
        _ => "z".into(),
    }
}
fn key_plain(k: u8) -> String {
    serde_json::from_str::<String>(&format!("\"{}\"", key_name(k))).unwrap()
}

fn doc_strategy() -> impl Strategy<Value = DocCase> {
    let tok = prop_oneof![60 => (0u8..10, 0u32..50).prop_map(|(k, v)| Tok::Pair(k, v)), 1 => (0u8..10, 0u8..6).prop_map(|(k, j)| Tok::BadValue(k, j))];
    (hmode_strategy(), proptest::collection::vec(tok, 0..24), prop_oneof![8 => Just(0u8), 1 => Just(1u8), 1 => Just(2u8), 1 => Just(3u8)], any::<bool>()).prop_map(|(hmode, toks, damage, whitespace)| DocCase { hmode, toks, damage, whitespace })
}

fn render(c: &DocCase) -> (String, bool) {
    let sep = if c.whitespace { " ,\n " } else { "," };
    let mut well_typed = true;
    let parts: Vec<String> = c
        .toks
        .iter()
        .map(|t| match t {
            Tok::Pair(k, v) => format!("\"{}\":{}{}", key_name(*k), if c.whitespace { " " } else { "" }, v),
            Tok::BadValue(k, j) => {
                well_typed = false;
                format!("\"{}\":{}", key_name(*k), ["null", "\"s\"", "[1,2]", "{\"x\":1}", "-1", "1.5"][*j as usize % 6])
            }
        })
        .collect();
    let mut s = format!("{{{}}}", parts.join(sep));
    match c.damage {
        1 => {
            let cut = s.len() / 2;
            let mut cut = cut;
            while !s.is_char_boundary(cut) {
                cut -= 1;
            }
            s.truncate(cut);
        }
        2 => s.push_str(" }"),
        3 => s = format!("[{}]", c.toks.iter().map(|t| if let Tok::Pair(_, v) = t { v.to_string() } else { "0".into() }).collect::<Vec<_>>().join(",")),
        _ => {}
    }
    (s, well_typed && c.damage == 0)
}

fn dump_sm(m: &SM) -> BTreeMap<String, u32> {
    let g = m.guard();
    m.iter(&g).map(|(k, v)| (k.clone(), *v)).collect()
}

pub struct DocInfo {
    pub repeated_key: bool,
    pub valid: bool,
}

fn run_doc_case(c: &DocCase) -> Result<DocInfo, String> {
    set_default_hmode(c.hmode);
    let (doc, valid) = render(c);
    let r = catch_unwind(AssertUnwindSafe(|| serde_json::from_str::<SM>(&doc)));
    let r = match r {
        Ok(r) => r,
        Err(_) => return Err(format!("deserialising a map from {:?} panicked", doc)),
    };
    let mut supplied: BTreeMap<String, Vec<u32>> = BTreeMap::new();
    for t in &c.toks {
        if let Tok::Pair(k, v) = t {
            supplied.entry(key_plain(*k)).or_default().push(*v);
        }
    }
    let repeated = supplied.values().any(|v| v.len() > 1);
    if valid {
        let m = match r {
            Ok(m) => m,
            Err(e) => return Err(format!("the well-formed document {:?} was refused: {}", doc, e)),
        };
        let got = dump_sm(&m);
        if got.len() != supplied.len() || m.len() != supplied.len() {
            return Err(format!("document {:?} gave {} entries, {} distinct keys were supplied", doc, got.len(), supplied.len()));
        }
        for (k, v) in &got {
            match supplied.get(k) {
                Some(vs) if vs.contains(v) => {}
                other => return Err(format!("document {:?}: key {:?} maps to {}, supplied values {:?}", doc, k, v, other)),
            }
        }
        // serialise -> deserialise round trip (map and pinned reference), must be equal
        let s1 = serde_json::to_string(&m).map_err(|e| format!("serialising failed: {}", e))?;
        let s2 = serde_json::to_string(&m.pin()).map_err(|e| format!("serialising the pinned reference failed: {}", e))?;
        let back1: SM = catch_unwind(AssertUnwindSafe(|| serde_json::from_str::<SM>(&s1))).map_err(|_| format!("deserialising our own output {:?} panicked", s1))?.map_err(|e| format!("our own output {:?} does not parse: {}", s1, e))?;
        let back2: SM = serde_json::from_str(&s2).map_err(|e| format!("the pinned reference's output {:?} does not parse: {}", s2, e))?;
        if back1 != m || back2 != m || dump_sm(&back1) != got {
            return Err(format!("round trip changed the map: {:?} -> {:?} -> {:?}", got, s1, dump_sm(&back1)));
        }
        // the same through a deserializer with an exact size hint
        let pairs: Vec<(String, u32)> = c.toks.iter().filter_map(|t| if let Tok::Pair(k, v) = t { Some((key_plain(*k), *v)) } else { None }).collect();
        let d = serde::de::value::MapDeserializer::<_, serde::de::value::Error>::new(pairs.clone().into_iter());
        let via_hint = catch_unwind(AssertUnwindSafe(|| SM::deserialize(d))).map_err(|_| "deserialising from a MapDeserializer (exact size hint) panicked".to_string())?;
        match via_hint {
            Ok(h) => {
                let hd = dump_sm(&h);
                if hd.keys().collect::<Vec<_>>() != got.keys().collect::<Vec<_>>() {
                    return Err(format!("MapDeserializer input gave keys {:?}, the JSON document {:?}", hd.keys().collect::<Vec<_>>(), got.keys().collect::<Vec<_>>()));
                }
            }
            Err(e) => return Err(format!("MapDeserializer input refused: {}", e)),
        }
    }
    // sets: the keys as an array (with repetitions)
    let arr = format!("[{}]", c.toks.iter().map(|t| match t { Tok::Pair(k, _) | Tok::BadValue(k, _) => format!("\"{}\"", key_name(*k)) }).collect::<Vec<_>>().join(","));
    let rs = catch_unwind(AssertUnwindSafe(|| serde_json::from_str::<SS>(&arr))).map_err(|_| format!("deserialising a set from {:?} panicked", arr))?;
    let s = rs.map_err(|e| format!("the well-formed array {:?} was refused: {}", arr, e))?;
    let want: BTreeSet<String> = c.toks.iter().map(|t| match t { Tok::Pair(k, _) | Tok::BadValue(k, _) => key_plain(*k) }).collect();
    let got: BTreeSet<String> = {
        let g = s.guard();
        s.iter(&g).cloned().collect()
    };
    if got != want || s.len() != want.len() {
        return Err(format!("array {:?} gave the set {:?}", arr, got));
    }
    let ser = serde_json::to_string(&s).map_err(|e| e.to_string())?;
    let ser2 = serde_json::to_string(&s.pin()).map_err(|e| e.to_string())?;
    let back: SS = serde_json::from_str(&ser).map_err(|e| format!("the set's own output {:?} does not parse: {}", ser, e))?;
    let back2: SS = serde_json::from_str(&ser2).map_err(|e| format!("the pinned set's output {:?} does not parse: {}", ser2, e))?;
    if back != s || back2 != s {
        return Err(format!("round trip changed the set {:?}", got));
    }
    Ok(DocInfo { repeated_key: repeated, valid })
}

#[derive(Clone, Debug, Serialize, Deserialize)]
pub struct ParCase {
    pub hmode: HMode,
    pub threads: u8,
    pub pre: Vec<(u32, u32)>,
    pub items: Vec<(u32, u32)>,
}

fn par_strategy() -> impl Strategy<Value = ParCase> {
    let kv = (0u32..64, 0u32..1000);
    (hmode_strategy(), 1u8..=8, proptest::collection::vec(kv.clone(), 0..20), prop_oneof![3 => proptest::collection::vec(kv.clone(), 0..40), 2 => proptest::collection::vec(kv, 40..600)]).prop_map(|(hmode, threads, pre, items)| ParCase { hmode, threads, pre, items })
}

fn dump_um(m: &UM) -> BTreeMap<u32, u32> {
    let g = m.guard();
    m.iter(&g).map(|(k, v)| (*k, *v)).collect()
}

fn check_against(what: &str, got: &BTreeMap<u32, u32>, len: usize, pre: &[(u32, u32)], items: &[(u32, u32)]) -> Result<(), String> {
    let mut supplied: BTreeMap<u32, Vec<u32>> = BTreeMap::new();
    for (k, v) in pre.iter().chain(items.iter()) {
        supplied.entry(*k).or_default().push(*v);
    }
    // a key supplied by `items` must end up with one of the item values (the pre-filled value is replaced)
    let item_keys: BTreeSet<u32> = items.iter().map(|x| x.0).collect();
    if got.keys().copied().collect::<BTreeSet<u32>>() != supplied.keys().copied().collect::<BTreeSet<u32>>() || len != supplied.len() {
        return Err(format!("{}: key set {:?} (len {}) differs from the sequential key set {:?}", what, got.keys().collect::<Vec<_>>(), len, supplied.keys().collect::<Vec<_>>()));
    }
    for (k, v) in got {
        let ok = if item_keys.contains(k) { items.iter().any(|(ik, iv)| ik == k && iv == v) } else { supplied[k].contains(v) };
        if !ok {
            return Err(format!("{}: key {} maps to {}, which none of the parallel items supplied for it ({:?})", what, k, v, supplied[k]));
        }
    }
    Ok(())
}

fn run_par_case(c: &ParCase) -> Result<bool, String> {
    set_default_hmode(c.hmode);
    let pool = rayon::ThreadPoolBuilder::new().num_threads(c.threads as usize).build().map_err(|e| e.to_string())?;
    let r = catch_unwind(AssertUnwindSafe(|| -> Result<(), String> {
        pool.install(|| -> Result<(), String> {
            // collect
            let m: UM = c.items.clone().into_par_iter().collect();
            check_against("par collect", &dump_um(&m), m.len(), &[], &c.items)?;
            let s: US = c.items.iter().map(|x| x.0).collect::<Vec<_>>().into_par_iter().collect();
            let want: BTreeSet<u32> = c.items.iter().map(|x| x.0).collect();
            let got: BTreeSet<u32> = {
                let g = s.guard();
                s.iter(&g).copied().collect()
            };
            if got != want || s.len() != want.len() {
                return Err(format!("par collect into a set gave {:?}, expected {:?}", got, want));
            }
            // par_extend: owned map, shared reference, pinned reference; owned and borrowed items
            let mk = || {
                let m = UM::with_hasher(HB(c.hmode));
                for (k, v) in &c.pre {
                    m.pin().insert(*k, *v);
                }
                m
            };
            let mut a = mk();
            a.par_extend(c.items.clone().into_par_iter());
            check_against("par_extend on the map", &dump_um(&a), a.len(), &c.pre, &c.items)?;
            let b = mk();
            (&b).par_extend(c.items.clone().into_par_iter());
            check_against("par_extend on &map", &dump_um(&b), b.len(), &c.pre, &c.items)?;
            let d = mk();
            d.pin().par_extend(c.items.clone().into_par_iter());
            check_against("par_extend on a pinned reference", &dump_um(&d), d.len(), &c.pre, &c.items)?;
            // sets
            let want2: BTreeSet<u32> = c.pre.iter().chain(c.items.iter()).map(|x| x.0).collect();
            let mks = || {
                let s = US::with_hasher(HB(c.hmode));
                for (k, _) in &c.pre {
                    s.pin().insert(*k);
                }
                s
            };
            let keys: Vec<u32> = c.items.iter().map(|x| x.0).collect();
            let mut s1 = mks();
            s1.par_extend(keys.clone().into_par_iter());
            let s2 = mks();
            (&s2).par_extend(keys.clone().into_par_iter());
            let s3 = mks();
            s3.pin().par_extend(keys.clone().into_par_iter());
            for (n, s) in [("set par_extend", &s1), ("&set par_extend", &s2), ("pinned set par_extend", &s3)] {
                let got: BTreeSet<u32> = {
                    let g = s.guard();
                    s.iter(&g).copied().collect()
                };
                if got != want2 || s.len() != want2.len() {
                    return Err(format!("{} gave {:?}, expected {:?}", n, got, want2));
                }
            }
            Ok(())
        })
    }));
    match r {
        Ok(r) => r?,
        Err(e) => return Err(format!("a parallel collect / extend panicked: {}", crate::sched::panic_msg(&e))),
    }
    let mut seen = BTreeSet::new();
    let repeated = c.items.iter().any(|x| !seen.insert(x.0));
    Ok(repeated && c.threads >= 2 && c.items.len() >= 40)
}

/* ------------------------------- long parallel inputs that repeat keys ------------------------------- */

/// Long inputs for the rayon paths in which most items REPLACE an entry (small alphabet) while every
/// `unique_every`-th position carries the only occurrence of its key: whatever a worker does per
/// job, per batch or per so-many replacements, it must not lose, invent or misattribute an item.
/// Item i carries the value i, so the oracle can tell which item a stored value came from.
#[derive(Clone, Debug, Serialize, Deserialize)]
pub struct ParDupCase {
    pub hmode: HMode,
    pub threads: u8,
    pub n: u32,
    pub alphabet: u32,
    pub unique_every: u32,
    /// 0: rayon's own splitting; otherwise the minimum length of a leaf job
    pub min_len: u32,
    /// true: the iterator is made unindexed (filter)
    pub unindexed: bool,
    /// keys of the alphabet below this bound are in the map before the call
    pub pre: u32,
}

fn pardup_strategy() -> impl Strategy<Value = ParDupCase> {
    (
        prop_oneof![Just(HMode::Mix), Just(HMode::Identity)],
        prop_oneof![3 => Just(1u8), 2 => Just(2u8), 2 => 3u8..=8],
        prop_oneof![3 => 8_200u32..20_000, 3 => 20_000u32..80_000, 1 => 80_000u32..200_000],
        prop_oneof![2 => 1u32..4, 3 => 4u32..64, 1 => 64u32..400],
        2u32..8,
        prop_oneof![3 => Just(0u32), 1 => Just(4_500u32), 1 => Just(10_000u32), 1 => Just(1_000_000u32)],
        any::<bool>(),
        0u32..80,
    )
        .prop_map(|(hmode, threads, n, alphabet, unique_every, min_len, unindexed, pre)| ParDupCase { hmode, threads, n, alphabet, unique_every, min_len, unindexed, pre })
}

impl ParDupCase {
    fn key(&self, i: u32) -> u32 {
        if i % self.unique_every == self.unique_every - 1 {
            1_000_000 + i
        } else {
            (i.wrapping_mul(0x9E37_79B1) >> 7) % self.alphabet
        }
    }
    fn items(&self) -> Vec<(u32, u32)> {
        (0..self.n).map(|i| (self.key(i), i)).collect()
    }
}

fn run_pardup_case(c: &ParDupCase) -> Result<(), String> {
    set_default_hmode(c.hmode);
    let items = c.items();
    let item_keys: BTreeSet<u32> = items.iter().map(|x| x.0).collect();
    let pre_keys: Vec<u32> = (0..c.pre.min(c.alphabet + 10)).collect();
    const OLD: u32 = u32::MAX;
    let check = |what: &str, got: &BTreeMap<u32, u32>, len: usize, with_pre: bool| -> Result<(), String> {
        let mut want: BTreeSet<u32> = item_keys.clone();
        if with_pre {
            want.extend(pre_keys.iter().copied());
        }
        if len != want.len() || got.len() != want.len() {
            let missing: Vec<u32> = want.iter().filter(|k| !got.contains_key(k)).take(5).copied().collect();
            let extra: Vec<u32> = got.keys().filter(|k| !want.contains(k)).take(5).copied().collect();
            return Err(format!("{}: {} items over {} distinct keys were supplied; the map reports len {} and holds {} keys (missing e.g. {:?}, not supplied e.g. {:?})", what, c.n, want.len(), len, got.len(), missing, extra));
        }
        for (k, v) in got {
            if item_keys.contains(k) {
                // must be the value of an item that carried this key (an entry present before is replaced)
                if *v == OLD || *v >= c.n || c.key(*v) != *k {
                    return Err(format!("{}: key {} maps to {}, which no item supplied for it", what, k, v));
                }
            } else if *v != OLD {
                return Err(format!("{}: key {} (present before the call, not among the items) now maps to {}", what, k, v));
            }
        }
        Ok(())
    };
    let pool = rayon::ThreadPoolBuilder::new().num_threads(c.threads as usize).build().map_err(|e| e.to_string())?;
    let r = catch_unwind(AssertUnwindSafe(|| -> Result<(), String> {
        pool.install(|| -> Result<(), String> {
            let mk = || {
                let m = UM::with_hasher(HB(c.hmode));
                for k in &pre_keys {
                    m.pin().insert(*k, OLD);
                }
                m
            };
            macro_rules! source {
                () => {{
                    let it = items.clone().into_par_iter().with_min_len((c.min_len as usize).clamp(1, items.len().max(1)));
                    it
                }};
            }
            if c.unindexed {
                let m: UM = source!().filter(|_| true).collect();
                check("par collect (unindexed source)", &dump_um(&m), m.len(), false)?;
                let mut a = mk();
                a.par_extend(source!().filter(|_| true));
                check("par_extend on the map (unindexed source)", &dump_um(&a), a.len(), true)?;
                let b = mk();
                (&b).par_extend(source!().filter(|_| true));
                check("par_extend on &map (unindexed source)", &dump_um(&b), b.len(), true)?;
                let d = mk();
                d.pin().par_extend(source!().filter(|_| true));
                check("par_extend on a pinned reference (unindexed source)", &dump_um(&d), d.len(), true)?;
            } else {
                let m: UM = source!().collect();
                check("par collect", &dump_um(&m), m.len(), false)?;
                let mut a = mk();
                a.par_extend(source!());
                check("par_extend on the map", &dump_um(&a), a.len(), true)?;
                let b = mk();
                (&b).par_extend(source!());
                check("par_extend on &map", &dump_um(&b), b.len(), true)?;
                let d = mk();
                d.pin().par_extend(source!());
                check("par_extend on a pinned reference", &dump_um(&d), d.len(), true)?;
            }
            // sets: the same keys
            let keys: Vec<u32> = items.iter().map(|x| x.0).collect();
            let mut want: BTreeSet<u32> = item_keys.clone();
            let s0: US = keys.clone().into_par_iter().with_min_len((c.min_len as usize).clamp(1, keys.len().max(1))).collect();
            let dump = |s: &US| -> BTreeSet<u32> {
                let g = s.guard();
                s.iter(&g).copied().collect()
            };
            if dump(&s0) != want || s0.len() != want.len() {
                return Err(format!("par collect into a set: {} distinct elements supplied, the set holds {} (len {})", want.len(), dump(&s0).len(), s0.len()));
            }
            want.extend(pre_keys.iter().copied());
            let mks = || {
                let s = US::with_hasher(HB(c.hmode));
                for k in &pre_keys {
                    s.pin().insert(*k);
                }
                s
            };
            let mut s1 = mks();
            s1.par_extend(keys.clone().into_par_iter().with_min_len((c.min_len as usize).clamp(1, keys.len().max(1))));
            let s2 = mks();
            (&s2).par_extend(keys.clone().into_par_iter());
            let s3 = mks();
            s3.pin().par_extend(keys.clone().into_par_iter().filter(|_| true));
            for (n, s) in [("set par_extend", &s1), ("&set par_extend", &s2), ("pinned set par_extend", &s3)] {
                let got = dump(s);
                if got != want || s.len() != want.len() {
                    let missing: Vec<u32> = want.iter().filter(|k| !got.contains(k)).take(5).copied().collect();
                    return Err(format!("{}: {} distinct elements expected, the set holds {} (len {}); missing e.g. {:?}", n, want.len(), got.len(), s.len(), missing));
                }
            }
            Ok(())
        })
    }));
    match r {
        Ok(r) => r,
        Err(e) => Err(format!("a parallel collect / extend of a long input panicked: {}", crate::sched::panic_msg(&e))),
    }
}

/* ------------------------------- size hints ------------------------------- */

/// a deserializer that hands out `pairs` (as a map) or their keys (as a sequence) and reports
/// whatever size hint the case says: a hint is only a hint (length-prefixed formats report the
/// prefix they read, which a corrupt input can make arbitrarily wrong)
struct Hinted {
    pairs: Vec<(u32, u32)>,
    hint: Option<usize>,
    pos: usize,
}
impl<'de> serde::Deserializer<'de> for Hinted {
    type Error = serde::de::value::Error;
    fn deserialize_any<V: serde::de::Visitor<'de>>(self, v: V) -> Result<V::Value, Self::Error> {
        v.visit_map(self)
    }
    fn deserialize_seq<V: serde::de::Visitor<'de>>(self, v: V) -> Result<V::Value, Self::Error> {
        v.visit_seq(self)
    }
    serde::forward_to_deserialize_any! { bool i8 i16 i32 i64 u8 u16 u32 u64 f32 f64 char str string bytes byte_buf option unit unit_struct newtype_struct tuple tuple_struct map struct enum identifier ignored_any }
}
impl<'de> serde::de::MapAccess<'de> for Hinted {
    type Error = serde::de::value::Error;
    fn next_key_seed<K: serde::de::DeserializeSeed<'de>>(&mut self, seed: K) -> Result<Option<K::Value>, Self::Error> {
        use serde::de::IntoDeserializer;
        match self.pairs.get(self.pos) {
            Some((k, _)) => seed.deserialize((*k).into_deserializer()).map(Some),
            None => Ok(None),
        }
    }
    fn next_value_seed<V: serde::de::DeserializeSeed<'de>>(&mut self, seed: V) -> Result<V::Value, Self::Error> {
        use serde::de::IntoDeserializer;
        let v = self.pairs[self.pos].1;
        self.pos += 1;
        seed.deserialize(v.into_deserializer())
    }
    fn size_hint(&self) -> Option<usize> {
        self.hint
    }
}
impl<'de> serde::de::SeqAccess<'de> for Hinted {
    type Error = serde::de::value::Error;
    fn next_element_seed<T: serde::de::DeserializeSeed<'de>>(&mut self, seed: T) -> Result<Option<T::Value>, Self::Error> {
        use serde::de::IntoDeserializer;
        match self.pairs.get(self.pos) {
            Some((k, _)) => {
                self.pos += 1;
                seed.deserialize((*k).into_deserializer()).map(Some)
            }
            None => Ok(None),
        }
    }
    fn size_hint(&self) -> Option<usize> {
        self.hint
    }
}

#[derive(Clone, Debug, Serialize, Deserialize)]
pub struct HintCase {
    pub hmode: HMode,
    pub pairs: Vec<(u32, u32)>,
    /// None, or the hint reported for the map / the sequence
    pub hint: Option<u64>,
    /// only the set is deserialised (hints for which the MAP visitor of the unchanged crate would
    /// pre-allocate gigabytes are only given to the set visitor, and only in one process)
    pub set_only: bool,
}

fn hint_strategy() -> impl Strategy<Value = HintCase> {
    let kv = (0u32..40, 0u32..1000);
    (hmode_strategy(), proptest::collection::vec(kv, 0..30), 0u8..10, 0u64..50_000).prop_map(|(hmode, pairs, kind, r)| {
        let n = pairs.len() as u64;
        let distinct = pairs.iter().map(|p| p.0).collect::<BTreeSet<u32>>().len() as u64;
        let hint = match kind {
            0 => None,
            1 | 2 => Some(n),
            3 => Some(distinct),
            4 => Some(0),
            5 => Some(n / 2),
            6 => Some(n + 1 + r % 7),
            7 => Some(2 * n + 100),
            _ => Some(r),
        };
        HintCase { hmode, pairs, hint, set_only: false }
    })
}

/// hints that no well-behaved format reports but a corrupt length prefix can
const WILD_HINTS: [u64; 8] = [u64::MAX, u64::MAX - 1, u64::MAX / 2, (u64::MAX / 8) + 1, 1 << 61, 1 << 62, (1 << 63) + 5, u64::MAX / 3];

fn run_hint_case(c: &HintCase) -> Result<bool, String> {
    set_default_hmode(c.hmode);
    let hint = c.hint.map(|h| h as usize);
    let mut supplied: BTreeMap<u32, Vec<u32>> = BTreeMap::new();
    for (k, v) in &c.pairs {
        supplied.entry(*k).or_default().push(*v);
    }
    if !c.set_only {
        let d = Hinted { pairs: c.pairs.clone(), hint, pos: 0 };
        let r = catch_unwind(AssertUnwindSafe(|| UM::deserialize(d))).map_err(|_| format!("deserialising a map of {} entries from a deserializer reporting size_hint {:?} panicked", c.pairs.len(), hint))?;
        let m = r.map_err(|e| format!("a well-formed map input with size_hint {:?} was refused: {}", hint, e))?;
        let got = dump_um(&m);
        if got.len() != supplied.len() || m.len() != supplied.len() {
            return Err(format!("map input with size_hint {:?}: {} entries, {} distinct keys were supplied", hint, got.len(), supplied.len()));
        }
        for (k, v) in &got {
            if !supplied.get(k).map_or(false, |vs| vs.contains(v)) {
                return Err(format!("map input with size_hint {:?}: key {} maps to {}, supplied values {:?}", hint, k, v, supplied.get(k)));
            }
        }
    }
    let d = Hinted { pairs: c.pairs.clone(), hint, pos: 0 };
    let r = catch_unwind(AssertUnwindSafe(|| US::deserialize(d))).map_err(|_| format!("deserialising a set of {} elements from a deserializer reporting size_hint {:?} panicked", c.pairs.len(), hint))?;
    let s = r.map_err(|e| format!("a well-formed sequence with size_hint {:?} was refused: {}", hint, e))?;
    let got: BTreeSet<u32> = {
        let g = s.guard();
        s.iter(&g).copied().collect()
    };
    if got != supplied.keys().copied().collect::<BTreeSet<u32>>() || s.len() != supplied.len() {
        return Err(format!("sequence with size_hint {:?} gave the set {:?}, supplied {:?}", hint, got, supplied.keys().collect::<Vec<_>>()));
    }
    Ok(hint.map_or(false, |h| h != supplied.len()))
}

/// long inputs: n distinct elements (every position carries the only occurrence of its value), read
/// from JSON text and from a hinted deserializer, then serialised and read back
#[derive(Clone, Debug, Serialize, Deserialize)]
pub struct LargeCase {
    pub n: u32,
    pub hmode: HMode,
}

fn run_large_case(c: &LargeCase) -> Result<(), String> {
    set_default_hmode(c.hmode);
    let n = c.n;
    // a fixed permutation of 0..n (multiplication by an odd constant modulo a power of two >= n, filtered)
    let m = (n.max(2) as u64).next_power_of_two();
    let perm: Vec<u32> = (0..m).map(|i| (i.wrapping_mul(0x9E37_79B1) + 12345) % m).filter(|x| *x < n as u64).map(|x| x as u32).collect();
    if perm.len() != n as usize {
        return Err("internal: permutation".into());
    }
    let arr = format!("[{}]", perm.iter().map(|x| x.to_string()).collect::<Vec<_>>().join(","));
    let s = catch_unwind(AssertUnwindSafe(|| serde_json::from_str::<US>(&arr))).map_err(|_| format!("deserialising a set of {} distinct elements panicked", n))?.map_err(|e| format!("a well-formed array of {} elements was refused: {}", n, e))?;
    let check_set = |s: &US, what: &str| -> Result<(), String> {
        if s.len() != n as usize {
            return Err(format!("{}: {} distinct elements were supplied, the set holds {}", what, n, s.len()));
        }
        let g = s.guard();
        if let Some(x) = (0..n).find(|x| !s.contains(x, &g)) {
            return Err(format!("{}: element {} (position {} of {}) is missing from the set", what, x, perm.iter().position(|y| y == &x).unwrap_or(0), n));
        }
        Ok(())
    };
    check_set(&s, "set read from a JSON array")?;
    let back: US = serde_json::from_str(&serde_json::to_string(&s).map_err(|e| e.to_string())?).map_err(|e| e.to_string())?;
    check_set(&back, "set after a serialise / deserialise round trip")?;
    if back != s {
        return Err(format!("round trip of a set of {} elements gave an unequal set", n));
    }
    let d = Hinted { pairs: perm.iter().map(|x| (*x, *x ^ 5)).collect(), hint: Some(n as usize), pos: 0 };
    let hs = catch_unwind(AssertUnwindSafe(|| US::deserialize(d))).map_err(|_| "deserialising a long hinted sequence panicked".to_string())?.map_err(|e| e.to_string())?;
    check_set(&hs, "set read from a hinted sequence")?;
    // maps
    let obj = format!("{{{}}}", perm.iter().map(|x| format!("\"{}\":{}", x, x ^ 5)).collect::<Vec<_>>().join(","));
    type BM = flurry::HashMap<String, u32, HB>;
    let mm = catch_unwind(AssertUnwindSafe(|| serde_json::from_str::<BM>(&obj))).map_err(|_| format!("deserialising a map of {} entries panicked", n))?.map_err(|e| format!("a well-formed object of {} entries was refused: {}", n, e))?;
    if mm.len() != n as usize {
        return Err(format!("map read from a JSON object: {} distinct keys were supplied, the map holds {}", n, mm.len()));
    }
    {
        let g = mm.guard();
        if let Some(x) = (0..n).find(|x| mm.get(&x.to_string(), &g) != Some(&(x ^ 5))) {
            return Err(format!("map read from a JSON object: key {} is missing or maps to the wrong value", x));
        }
    }
    let d = Hinted { pairs: perm.iter().map(|x| (*x, *x ^ 5)).collect(), hint: Some(n as usize), pos: 0 };
    let hm = catch_unwind(AssertUnwindSafe(|| UM::deserialize(d))).map_err(|_| "deserialising a long hinted map panicked".to_string())?.map_err(|e| e.to_string())?;
    if hm.len() != n as usize || dump_um(&hm).iter().any(|(k, v)| *v != k ^ 5) {
        return Err(format!("map read from a hinted deserializer: {} entries supplied, {} stored (or a wrong value)", n, hm.len()));
    }
    // rayon: more items than any small case, several resizes run while the pool inserts
    let items: Vec<(u32, u32)> = perm.iter().take(60_000).map(|x| (*x, *x ^ 5)).collect();
    let pm: UM = items.clone().into_par_iter().collect();
    let want: BTreeMap<u32, u32> = items.iter().copied().collect();
    if dump_um(&pm) != want {
        return Err(format!("parallel collect of {} distinct items differs from sequential insertion", items.len()));
    }
    let ps: US = items.iter().map(|x| x.0).collect::<Vec<u32>>().into_par_iter().collect();
    if ps.len() != want.len() {
        return Err(format!("parallel collect of {} distinct elements into a set gave {}", want.len(), ps.len()));
    }
    Ok(())
}

fn c19_shard(ctx: &Ctx, out: &mut ShardOut) {
    // a few long inputs, spread over the shards
    let sizes: [u32; 16] = [131_072, 131_073, 131_074, 262_145, 262_146, 300_000, 65_537, 100_000, 200_001, 393_218, 393_219, 150_000, 70_000, 140_000, 280_000, 33_000];
    {
        let c = LargeCase { n: sizes[ctx.shard % 16], hmode: [HMode::Mix, HMode::Identity][ctx.shard % 2] };
        ctx.mark_inflight("large", &serde_json::to_string(&c).unwrap());
        out.evaluations += 1;
        out.class("long_inputs", 1);
        match run_large_case(&c) {
            Ok(()) => {
                out.nontrivial.insert(hash_str(&format!("large{}", c.n)));
            }
            Err(m) => out.violations.push(Viol { prop: "C19".into(), msg: format!("[C19] {}", m), replay: serde_json::json!({"sub": "large", "case": c}) }),
        }
    }
    drive(ctx, "hint", ctx.shard_seed(3), ctx.share(ctx.by_tier(8_000, 120_000)) as u32, hint_strategy(), out, |c| {
        let nt = run_hint_case(c).map_err(|m| CaseFail { prop: "C19".into(), msg: format!("[C19] {}", m) })?;
        Ok(CaseInfo { nontrivial: nt, classes: vec![("hinted_inputs", 1), ("hinted_inputs_whose_hint_differs_from_the_number_of_distinct_keys", nt as u64)], evaluations: 1, sub_hashes: vec![] })
    });
    if ctx.shard == 0 {
        for (i, h) in WILD_HINTS.iter().enumerate() {
            let c = HintCase { hmode: HMode::Mix, pairs: (0..(i as u32 % 4)).map(|j| (j % 2, j)).collect(), hint: Some(*h), set_only: true };
            ctx.mark_inflight("hint", &serde_json::to_string(&c).unwrap());
            out.evaluations += 1;
            out.class("wild_size_hints_given_to_the_set_visitor", 1);
            if let Err(m) = run_hint_case(&c) {
                out.violations.push(Viol { prop: "C19".into(), msg: format!("[C19] {}", m), replay: serde_json::json!({"sub": "hint", "case": c}) });
                break;
            }
        }
    }
    drive(ctx, "doc", ctx.shard_seed(1), ctx.share(ctx.by_tier(40_000, 600_000)) as u32, doc_strategy(), out, |c| {
        let i = run_doc_case(c).map_err(|m| CaseFail { prop: "C19".into(), msg: format!("[C19] {}", m) })?;
        Ok(CaseInfo { nontrivial: i.repeated_key && i.valid, classes: vec![("documents_repeating_a_key", i.repeated_key as u64), ("documents_well_formed", i.valid as u64), ("documents_malformed_or_ill_typed", (!i.valid) as u64)], evaluations: 1, sub_hashes: vec![] })
    });
    super::concchecks2::c19_conc_run(ctx, out);
    drive(ctx, "pardup", ctx.shard_seed(4), ctx.share(ctx.by_tier(96, 3_000)) as u32, pardup_strategy(), out, |c| {
        run_pardup_case(c).map_err(|m| CaseFail { prop: "C19".into(), msg: format!("[C19] {}", m) })?;
        Ok(CaseInfo { nontrivial: true, classes: vec![("long_parallel_inputs_repeating_keys", 1), ("items_in_long_parallel_inputs", c.n as u64)], evaluations: 1, sub_hashes: vec![] })
    });
    drive(ctx, "par", ctx.shard_seed(2), ctx.share(ctx.by_tier(3000, 40_000)) as u32, par_strategy(), out, |c| {
        let nt = run_par_case(c).map_err(|m| CaseFail { prop: "C19".into(), msg: format!("[C19] {}", m) })?;
        Ok(CaseInfo { nontrivial: nt, classes: vec![("parallel_runs", 1), ("parallel_runs_with_a_key_supplied_more_than_once", nt as u64)], evaluations: 1, sub_hashes: vec![] })
    });
}

fn c19_replay(sub: &str, case: &Value) -> Result<(), CaseFail> {
    let bad = |e: serde_json::Error| CaseFail { prop: "C19".into(), msg: format!("bad replay file: {}", e) };
    match sub {
        "large" => {
            let c: LargeCase = serde_json::from_value(case.clone()).map_err(bad)?;
            run_large_case(&c).map_err(|m| CaseFail { prop: "C19".into(), msg: format!("[C19] {}", m) })
        }
        "hint" => {
            let c: HintCase = serde_json::from_value(case.clone()).map_err(bad)?;
            run_hint_case(&c).map(|_| ()).map_err(|m| CaseFail { prop: "C19".into(), msg: format!("[C19] {}", m) })
        }
        "ser-conc" | "ser-first" | "ser-resize" => super::concchecks2::c19_conc_replay(sub, case),
        "pardup" => {
            let c: ParDupCase = serde_json::from_value(case.clone()).map_err(bad)?;
            run_pardup_case(&c).map_err(|m| CaseFail { prop: "C19".into(), msg: format!("[C19] {}", m) })
        }
        "par" => {
            let c: ParCase = serde_json::from_value(case.clone()).map_err(bad)?;
            run_par_case(&c).map(|_| ()).map_err(|m| CaseFail { prop: "C19".into(), msg: format!("[C19] {}", m) })
        }
        _ => {
            let c: DocCase = serde_json::from_value(case.clone()).map_err(bad)?;
            run_doc_case(&c).map(|_| ()).map_err(|m| CaseFail { prop: "C19".into(), msg: format!("[C19] {}", m) })
        }
    }
}

pub fn defs() -> Vec<PropDef> {
    vec![PropDef {
        id: "C19",
        level: "exploration",
        rule: "(serde) JSON objects generated from a grammar over a 10-key alphabet (empty key, escapes, multi-byte) with repetitions, ill-typed values, truncation, trailing garbage and arrays; deserialisation into HashMap<String,u32> runs under catch_unwind and must return a value or an error; a well-formed document must give exactly the supplied key set with each key mapped to one of its supplied values, serialise->deserialise (map and pinned reference, all hashers through a Default wrapper) must give an equal map, and a MapDeserializer with exact size hint the same key set; deserializers reporting generated size hints (absent, exact, number of distinct keys, 0, too small, too large, arbitrary up to 50000; eight wild hints up to usize::MAX for the set visitor) must give the sequential result without panicking; sixteen long inputs (33 000 - 393 219 distinct elements, every value occurring once) through JSON text, a hinted deserializer, a round trip and a 60 000-item parallel collect; the key list as an array for sets likewise; (rayon) item multisets collected / par_extend-ed (owned map, &map, pinned reference; maps and sets) on pools of 1-8 threads must give the sequential key set with each key mapped to one of the values supplied for it; non-trivial = a well-formed document that repeats a key, or a parallel run on >= 2 threads with >= 40 items and a key supplied more than once; distinct = hash of the case",
        assumptions: &["serde_json and a minimal length-trusting serde format written for this check (strictser.rs) are the data formats exercised", "rayon scheduling is not controlled: each parallel case is one sample of it; the sub-checks pardup (8 200-200 000 items, mostly replacing, unique keys sprinkled in, forced leaf lengths, indexed and unindexed sources) and ser-conc / ser-first / ser-resize (a map serialised while scheduled threads update it: well-formed document, weakly consistent selection of entries, announced length = entries emitted) are reported in the classes"],
        run_shard: c19_shard,
        replay: c19_replay,
        shards: super::sixteen,
        watchdog: |t| if t == Tier::Quick { 900 } else { 6 * 3600 },
    }]
}
