//! Checks decided by the sequential engine E1: C02, C05 (sequential part), C04 (sequential part),
//! C06, C14.
use crate::model::*;
use crate::runner::*;
use crate::seq::{run_map_case, Fail, Oracles, Stats};
use crate::setseq::run_set_case;
use crate::types::*;
use crate::PropDef;
use proptest::prelude::*;
use serde_json::Value;

fn to_casefail(asked: &str, f: Fail) -> CaseFail {
    CaseFail { prop: if f.prop == "ANY" { asked.to_string() } else { f.prop.to_string() }, msg: format!("[{}] step {}: {}", f.prop, f.step, f.msg) }
}

fn stats_classes(s: &Stats) -> Vec<(&'static str, u64)> {
    vec![
        ("cases_with_resize", (s.resizes > 0) as u64),
        ("cases_with_treeify", (s.treeify > 0) as u64),
        ("cases_with_untreeify", (s.untreeify > 0) as u64),
        ("cases_with_tree_split", (s.tree_splits > 0) as u64),
        ("cases_with_tree_clear", (s.tree_clears > 0) as u64),
        ("cases_with_tree_clone", (s.tree_clones > 0) as u64),
        ("cases_collect_with_transfer", (s.collects_with_transfer > 0) as u64),
        ("cases_collect_with_tree", (s.collects_with_tree > 0) as u64),
        ("cases_table_ge_64", (s.max_table >= 64) as u64),
        ("cases_tree_ge_16", (s.max_tree >= 16) as u64),
        ("steps", s.steps),
    ]
}

fn mechanisms(s: &Stats) -> u32 {
    (s.resizes > 0) as u32 + (s.treeify > 0) as u32 + (s.untreeify > 0) as u32 + (s.tree_splits > 0) as u32 + (s.tree_clears > 0) as u32 + (s.tree_clones > 0) as u32 + (s.collects_with_transfer > 0) as u32
}

/* ------------------------------------ C02 ------------------------------------ */

const C02_OR: Oracles = Oracles { returns: true, quiescent: false, ledger: false, canary: false, capacity: false, cmp_bound: false, growth: false };

fn c02_shard(ctx: &Ctx, out: &mut ShardOut) {
    let n_map = ctx.share(ctx.by_tier(3000, 100_000)) as u32;
    let n_set = ctx.share(ctx.by_tier(1000, 30_000)) as u32;
    let n_copy = ctx.share(ctx.by_tier(600, 20_000)) as u32;
    drive(ctx, "map", ctx.shard_seed(1), n_map, seq_case_strategy(false, 200), out, |c| {
        let s = run_map_case(c, C02_OR).map_err(|f| to_casefail("C02", f))?;
        Ok(CaseInfo { nontrivial: mechanisms(&s) >= 2, classes: stats_classes(&s), evaluations: 1 })
    });
    drive(ctx, "set", ctx.shard_seed(2), n_set, seq_case_strategy(true, 150), out, |c| {
        let s = run_set_case(c, C02_OR).map_err(|f| to_casefail("C02", f))?;
        let mut cl = stats_classes(&s);
        cl.push(("set_cases", 1));
        Ok(CaseInfo { nontrivial: mechanisms(&s) >= 2, classes: cl, evaluations: 1 })
    });
    drive(ctx, "copyapi", ctx.shard_seed(3), n_copy, copy_case_strategy(), out, |c| {
        run_copy_case(c).map_err(|m| CaseFail { prop: "C02".into(), msg: m })?;
        Ok(CaseInfo { nontrivial: c.items.len() > 12 && c.hint < 128, classes: vec![("copyapi_cases", 1)], evaluations: 1 })
    });
}

fn c02_replay(sub: &str, case: &Value) -> Result<(), CaseFail> {
    replay_seq("C02", sub, case, C02_OR)
}

fn replay_seq(asked: &str, sub: &str, case: &Value, or: Oracles) -> Result<(), CaseFail> {
    match sub {
        "map" => {
            let c: SeqCase = serde_json::from_value(case.clone()).map_err(|e| CaseFail { prop: asked.into(), msg: format!("bad replay file: {}", e) })?;
            run_map_case(&c, or).map(|_| ()).map_err(|f| to_casefail(asked, f))
        }
        "set" => {
            let c: SeqCase = serde_json::from_value(case.clone()).map_err(|e| CaseFail { prop: asked.into(), msg: format!("bad replay file: {}", e) })?;
            run_set_case(&c, or).map(|_| ()).map_err(|f| to_casefail(asked, f))
        }
        "copyapi" => {
            let c: CopyCase = serde_json::from_value(case.clone()).map_err(|e| CaseFail { prop: asked.into(), msg: format!("bad replay file: {}", e) })?;
            run_copy_case(&c).map_err(|m| CaseFail { prop: asked.into(), msg: m })
        }
        _ => Err(CaseFail { prop: asked.into(), msg: format!("unknown sub-check {:?} in replay file", sub) }),
    }
}

/// the by-reference (`Copy`) bulk entry points, against std collections
#[derive(Clone, Debug, serde::Serialize, serde::Deserialize)]
pub struct CopyCase {
    pub hmode: HMode,
    pub pre: Vec<(u32, u32)>,
    pub items: Vec<(u32, u32)>,
    pub hint: u8,
}

fn copy_case_strategy() -> impl Strategy<Value = CopyCase> {
    let kv = (0u32..48, 0u32..1000);
    (hmode_strategy(), proptest::collection::vec(kv.clone(), 0..20), proptest::collection::vec(kv, 0..120), any::<u8>()).prop_map(|(hmode, pre, items, hint)| CopyCase { hmode, pre, items, hint })
}

struct HintedRef<I> {
    it: I,
    lo: usize,
}
impl<I: Iterator> Iterator for HintedRef<I> {
    type Item = I::Item;
    fn next(&mut self) -> Option<I::Item> {
        let r = self.it.next();
        if r.is_some() && self.lo > 0 {
            self.lo -= 1;
        }
        r
    }
    fn size_hint(&self) -> (usize, Option<usize>) {
        (self.lo, None)
    }
}

fn run_copy_case(c: &CopyCase) -> Result<(), String> {
    use std::collections::{BTreeMap, BTreeSet};
    set_default_hmode(c.hmode);
    let lo = c.items.len() * c.hint as usize / 255;
    let model_of = |pre: &[(u32, u32)], items: &[(u32, u32)]| {
        let mut m = BTreeMap::new();
        for (k, v) in pre.iter().chain(items.iter()) {
            m.insert(*k, *v);
        }
        m
    };
    let dump = |m: &flurry::HashMap<u32, u32, HB>| -> BTreeMap<u32, u32> {
        let g = m.guard();
        m.iter(&g).map(|(k, v)| (*k, *v)).collect()
    };
    // FromIterator<(&K, &V)>
    let a: flurry::HashMap<u32, u32, HB> = HintedRef { it: c.items.iter().map(|(k, v)| (k, v)), lo }.collect();
    if dump(&a) != model_of(&[], &c.items) || a.len() != model_of(&[], &c.items).len() {
        return Err(format!("collect::<HashMap> from (&K, &V) gave {:?}", dump(&a)));
    }
    // FromIterator<&(K, V)>
    let b: flurry::HashMap<u32, u32, HB> = HintedRef { it: c.items.iter(), lo }.collect();
    if dump(&b) != model_of(&[], &c.items) {
        return Err(format!("collect::<HashMap> from &(K, V) gave {:?}", dump(&b)));
    }
    if a != b {
        return Err("two maps collected from the same items are not equal".into());
    }
    // Extend<(&K, &V)> on a pre-filled map
    let e = flurry::HashMap::<u32, u32, HB>::with_hasher(HB(c.hmode));
    for (k, v) in &c.pre {
        e.pin().insert(*k, *v);
    }
    let mut er = &e;
    er.extend(HintedRef { it: c.items.iter().map(|(k, v)| (k, v)), lo });
    if dump(&e) != model_of(&c.pre, &c.items) {
        return Err(format!("extend by reference gave {:?}, expected {:?}", dump(&e), model_of(&c.pre, &c.items)));
    }
    // sets
    let want: BTreeSet<u32> = c.items.iter().map(|x| x.0).collect();
    let s: flurry::HashSet<u32, HB> = HintedRef { it: c.items.iter().map(|x| &x.0), lo }.collect();
    let sd: BTreeSet<u32> = {
        let g = s.guard();
        s.iter(&g).copied().collect()
    };
    if sd != want || s.len() != want.len() {
        return Err(format!("collect::<HashSet> from &T gave {:?}", sd));
    }
    let s2 = flurry::HashSet::<u32, HB>::with_hasher(HB(c.hmode));
    for (k, _) in &c.pre {
        s2.pin().insert(*k);
    }
    let mut s2r = &s2;
    s2r.extend(HintedRef { it: c.items.iter().map(|x| &x.0), lo });
    let want2: BTreeSet<u32> = c.pre.iter().chain(c.items.iter()).map(|x| x.0).collect();
    let sd2: BTreeSet<u32> = {
        let g = s2.guard();
        s2.iter(&g).copied().collect()
    };
    if sd2 != want2 {
        return Err(format!("set extend by reference gave {:?}, expected {:?}", sd2, want2));
    }
    Ok(())
}

pub fn defs() -> Vec<PropDef> {
    vec![PropDef {
        id: "C02",
        level: "exploration",
        rule: "proptest-generated operation sequences (<= 200 ops; hasher, capacity, facade, batch size, universe all generated) run against flurry HashMap / HashSet and a BTreeMap model with full comparison after every step; a case is non-trivial when it exercised at least two of {resize, treeify, untreeify, tree-bin split, clear of a tree bin, clone of a tree-holding map, collect() that had to transfer}; distinct = hash of the serialized case",
        assumptions: &["the BTreeMap model and the interpretation of each Op are correct", "K/V instrumentation (Eq/Ord/Hash on the tag) is a lawful key type"],
        run_shard: c02_shard,
        replay: c02_replay,
        shards: super::sixteen,
        watchdog: |t| if t == Tier::Quick { 900 } else { 6 * 3600 },
    }]
}
