//! Checks decided by the sequential engine E1: C02, C05 (sequential part), C04 (sequential part),
//! C06, C14.
use crate::conc::Budget;
use crate::model::*;
use crate::runner::*;
use crate::seq::{run_map_case, Fail, Oracles, Stats};
use crate::setseq::run_set_case;
use crate::types::*;
use crate::PropDef;
use proptest::prelude::*;
use serde_json::Value;

fn to_casefail(asked: &str, f: Fail) -> CaseFail {
    CaseFail { prop: if f.prop == "ANY" { asked.to_string() } else { f.prop.to_string() }, msg: format!("[{}] step {}: {}", f.prop, f.step, f.msg) }
}

fn stats_classes(s: &Stats) -> Vec<(&'static str, u64)> {
    vec![
        ("cases_with_resize", (s.resizes > 0) as u64),
        ("cases_with_treeify", (s.treeify > 0) as u64),
        ("cases_with_untreeify", (s.untreeify > 0) as u64),
        ("cases_with_tree_split", (s.tree_splits > 0) as u64),
        ("cases_with_tree_clear", (s.tree_clears > 0) as u64),
        ("cases_with_tree_clone", (s.tree_clones > 0) as u64),
        ("cases_collect_with_transfer", (s.collects_with_transfer > 0) as u64),
        ("cases_collect_with_tree", (s.collects_with_tree > 0) as u64),
        ("cases_table_ge_64", (s.max_table >= 64) as u64),
        ("cases_tree_ge_16", (s.max_tree >= 16) as u64),
        ("steps", s.steps),
    ]
}

fn mechanisms(s: &Stats) -> u32 {
    (s.resizes > 0) as u32 + (s.treeify > 0) as u32 + (s.untreeify > 0) as u32 + (s.tree_splits > 0) as u32 + (s.tree_clears > 0) as u32 + (s.tree_clones > 0) as u32 + (s.collects_with_transfer > 0) as u32
}

/* ------------------------------------ C02 ------------------------------------ */

const C02_OR: Oracles = Oracles { returns: true, quiescent: false, ledger: false, canary: false, capacity: false, cmp_bound: false, growth: false };

fn c02_shard(ctx: &Ctx, out: &mut ShardOut) {
    let n_map = ctx.share(ctx.by_tier(20_000, 300_000)) as u32;
    let n_set = ctx.share(ctx.by_tier(6000, 80_000)) as u32;
    let n_copy = ctx.share(ctx.by_tier(4000, 60_000)) as u32;
    drive(ctx, "map", ctx.shard_seed(1), n_map, seq_case_strategy(false, 200), out, |c| {
        let s = run_map_case(c, C02_OR).map_err(|f| to_casefail("C02", f))?;
        Ok(CaseInfo { nontrivial: mechanisms(&s) >= 2, classes: stats_classes(&s), evaluations: 1, sub_hashes: vec![] })
    });
    drive(ctx, "set", ctx.shard_seed(2), n_set, seq_case_strategy(true, 150), out, |c| {
        let s = run_set_case(c, C02_OR).map_err(|f| to_casefail("C02", f))?;
        let mut cl = stats_classes(&s);
        cl.push(("set_cases", 1));
        Ok(CaseInfo { nontrivial: mechanisms(&s) >= 2, classes: cl, evaluations: 1, sub_hashes: vec![] })
    });
    drive(ctx, "copyapi", ctx.shard_seed(3), n_copy, copy_case_strategy(), out, |c| {
        run_copy_case(c).map_err(|m| CaseFail { prop: "C02".into(), msg: m })?;
        Ok(CaseInfo { nontrivial: c.items.len() > 12 && c.hint < 128, classes: vec![("copyapi_cases", 1)], evaluations: 1, sub_hashes: vec![] })
    });
    run_big(ctx, out, "C02", C02_OR, 0);
    drive(ctx, "eqsem", ctx.shard_seed(4), ctx.share(ctx.by_tier(8000, 100_000)) as u32, eq_case_strategy(), out, |c| {
        let nt = run_eq_case(c).map_err(|m| CaseFail { prop: "C02".into(), msg: format!("[C02] {}", m) })?;
        Ok(CaseInfo { nontrivial: nt, classes: vec![("equality_cases", 1), ("equality_cases_with_a_non_reflexive_value_or_equal_non_empty_maps", nt as u64)], evaluations: 1, sub_hashes: vec![] })
    });
}

/// long histories over thousands of keys: every bulk operation at a scale the generated cases never
/// reach (more than 1024 removals in one retain, several consecutive resizes, big tree bins)
pub fn big_case(i: usize) -> SeqCase {
    let sizes = [1100u16, 1500, 2100, 3100, 4200, 6000, 1030, 2060];
    let n = sizes[i % sizes.len()];
    let hmode = [HMode::Mix, HMode::Identity, HMode::SameBin, HMode::Mix, HMode::PairBin, HMode::Identity, HMode::Const0, HMode::Mix][(i / 2) % 8];
    let facade = [Facade::Guarded, Facade::Pin, Facade::WithGuard, Facade::Long(7)][i % 4];
    let cfg = Cfg { hmode, capacity: [0u32, 64, 5000][i % 3], facade, batch: [8u32, 120, 1][i % 3], universe: n, keymap: KeyMap::Dense, set: false };
    let ops = vec![
        Op::Fill(0, n),
        Op::Iterate(0),
        Op::Retain(crate::model::Pred::KeyMod(5, (i % 5) as u8)),
        Op::Iterate(1),
        Op::Fill(0, n),
        Op::RetainForce(crate::model::Pred::KeyLess(3)),
        Op::Fill(0, n),
        Op::CloneSwap,
        Op::EqCheck,
        Op::Retain(crate::model::Pred::False),
        Op::Extend((0..n).step_by(2).collect(), 200),
        Op::Collect((0..n).rev().collect(), 10),
        Op::Drain(0, n / 2),
        Op::RetainForce(crate::model::Pred::ValEven),
        Op::Debug,
        Op::Clear,
        Op::Fill(n / 3, n / 3),
        Op::RetainForce(crate::model::Pred::False),
    ];
    SeqCase { cfg, ops }
}

pub fn run_big(ctx: &Ctx, out: &mut ShardOut, asked: &'static str, or: Oracles, salt: usize) {
    let c = big_case(ctx.shard + salt);
    ctx.mark_inflight("map", &serde_json::to_string(&c).unwrap());
    out.evaluations += 1;
    out.class("long_histories_over_thousands_of_keys", 1);
    match run_map_case(&c, or) {
        Ok(_) => {
            out.nontrivial.insert(hash_str(&format!("big{}", ctx.shard + salt)));
        }
        Err(f) => out.violations.push(Viol { prop: asked.into(), msg: format!("[{}] step {}: {}", f.prop, f.step, f.msg), replay: serde_json::json!({"sub": "map", "case": c}) }),
    }
}

/// equality through every operand form against `std::collections::HashMap<u32, f64>` semantics
/// (values whose `PartialEq` is not reflexive: a map holding NaN is not equal to itself)
#[derive(Clone, Debug, serde::Serialize, serde::Deserialize)]
pub struct EqCase {
    pub hmode: HMode,
    pub a: Vec<(u8, u8)>,
    /// 0 = b is built from the same pairs in reverse order, 1 = from `other`, 2 = same pairs with one value changed
    pub kind: u8,
    pub other: Vec<(u8, u8)>,
}
fn eq_case_strategy() -> impl Strategy<Value = EqCase> {
    let pairs = || proptest::collection::vec((0u8..12, 0u8..5), 0..10);
    (hmode_strategy(), pairs(), 0u8..3, pairs()).prop_map(|(hmode, a, kind, other)| EqCase { hmode, a, kind, other })
}
fn run_eq_case(c: &EqCase) -> Result<bool, String> {
    const VALS: [f64; 5] = [0.0, 1.5, -0.0, f64::NAN, 7.25];
    type FM = flurry::HashMap<u32, f64, HB>;
    let b_pairs: Vec<(u8, u8)> = match c.kind {
        0 => c.a.iter().rev().copied().collect(),
        1 => c.other.clone(),
        _ => {
            let mut v = c.a.clone();
            if let Some(x) = v.last_mut() {
                x.1 = (x.1 + 1) % 5;
            }
            v
        }
    };
    // reversed insertion order gives the same map only if no key repeats: build both std maps honestly
    let mk_std = |p: &[(u8, u8)]| -> std::collections::HashMap<u32, f64> { p.iter().map(|(k, v)| (*k as u32, VALS[*v as usize])).collect() };
    let mk = |p: &[(u8, u8)]| -> FM {
        let m = FM::with_hasher(HB(c.hmode));
        let g = m.guard();
        for (k, v) in p {
            m.insert(*k as u32, VALS[*v as usize], &g);
        }
        drop(g);
        m
    };
    let (sa, sb) = (mk_std(&c.a), mk_std(&b_pairs));
    let (fa, fb) = (mk(&c.a), mk(&b_pairs));
    let (ga, gb) = (fa.guard(), fb.guard());
    let want_ab = sa == sb;
    let want_aa = sa == sa;
    let r = fa.pin();
    let forms: Vec<(&str, bool, bool)> = vec![
        ("HashMap == HashMap", fa == fb, want_ab),
        ("HashMap == HashMap (swapped)", fb == fa, sb == sa),
        ("pin() == pin()", fa.pin() == fb.pin(), want_ab),
        ("pin() == HashMap", fa.pin() == fb, want_ab),
        ("HashMap == pin()", fa == fb.pin(), want_ab),
        ("with_guard() == with_guard()", fa.with_guard(&ga) == fb.with_guard(&gb), want_ab),
        ("map == itself", fa == fa, want_aa),
        ("pin() == pin() of the same map", fa.pin() == fa.pin(), want_aa),
        ("a pinned reference == its clone", r.clone() == r, want_aa),
        ("pin() == the map it pins", fa.pin() == fa, want_aa),
        ("map == pin() of itself", fa == fa.pin(), want_aa),
        ("pin() == with_guard() of the same map", fa.pin() == fa.with_guard(&ga), want_aa),
        ("clone == original", fa.clone() == fa, sa.clone() == sa),
    ];
    for (what, got, want) in forms {
        if got != want {
            return Err(format!("{} is {} but the standard map says {} (a = {:?}, b = {:?}, values {:?})", what, got, want, c.a, b_pairs, VALS));
        }
    }
    Ok(!want_aa || (want_ab && !c.a.is_empty()))
}

fn c02_replay(sub: &str, case: &Value) -> Result<(), CaseFail> {
    if sub == "eqsem" {
        let c: EqCase = serde_json::from_value(case.clone()).map_err(|e| CaseFail { prop: "C02".into(), msg: format!("bad replay file: {}", e) })?;
        return run_eq_case(&c).map(|_| ()).map_err(|m| CaseFail { prop: "C02".into(), msg: format!("[C02] {}", m) });
    }
    replay_seq("C02", sub, case, C02_OR)
}

fn replay_seq(asked: &str, sub: &str, case: &Value, or: Oracles) -> Result<(), CaseFail> {
    match sub {
        "map" => {
            let c: SeqCase = serde_json::from_value(case.clone()).map_err(|e| CaseFail { prop: asked.into(), msg: format!("bad replay file: {}", e) })?;
            run_map_case(&c, or).map(|_| ()).map_err(|f| to_casefail(asked, f))
        }
        "set" => {
            let c: SeqCase = serde_json::from_value(case.clone()).map_err(|e| CaseFail { prop: asked.into(), msg: format!("bad replay file: {}", e) })?;
            run_set_case(&c, or).map(|_| ()).map_err(|f| to_casefail(asked, f))
        }
        "copyapi" => {
            let c: CopyCase = serde_json::from_value(case.clone()).map_err(|e| CaseFail { prop: asked.into(), msg: format!("bad replay file: {}", e) })?;
            run_copy_case(&c).map_err(|m| CaseFail { prop: asked.into(), msg: m })
        }
        _ => Err(CaseFail { prop: asked.into(), msg: format!("unknown sub-check {:?} in replay file", sub) }),
    }
}

/// the by-reference (`Copy`) bulk entry points, against std collections
#[derive(Clone, Debug, serde::Serialize, serde::Deserialize)]
pub struct CopyCase {
    pub hmode: HMode,
    pub pre: Vec<(u32, u32)>,
    pub items: Vec<(u32, u32)>,
    pub hint: u8,
}

fn copy_case_strategy() -> impl Strategy<Value = CopyCase> {
    let kv = (0u32..48, 0u32..1000);
    (hmode_strategy(), proptest::collection::vec(kv.clone(), 0..20), proptest::collection::vec(kv, 0..120), any::<u8>()).prop_map(|(hmode, pre, items, hint)| CopyCase { hmode, pre, items, hint })
}

struct HintedRef<I> {
    it: I,
    lo: usize,
}
impl<I: Iterator> Iterator for HintedRef<I> {
    type Item = I::Item;
    fn next(&mut self) -> Option<I::Item> {
        let r = self.it.next();
        if r.is_some() && self.lo > 0 {
            self.lo -= 1;
        }
        r
    }
    fn size_hint(&self) -> (usize, Option<usize>) {
        (self.lo, None)
    }
}

fn run_copy_case(c: &CopyCase) -> Result<(), String> {
    use std::collections::{BTreeMap, BTreeSet};
    set_default_hmode(c.hmode);
    let lo = c.items.len() * c.hint as usize / 255;
    let model_of = |pre: &[(u32, u32)], items: &[(u32, u32)]| {
        let mut m = BTreeMap::new();
        for (k, v) in pre.iter().chain(items.iter()) {
            m.insert(*k, *v);
        }
        m
    };
    let dump = |m: &flurry::HashMap<u32, u32, HB>| -> BTreeMap<u32, u32> {
        let g = m.guard();
        m.iter(&g).map(|(k, v)| (*k, *v)).collect()
    };
    // FromIterator<(&K, &V)>
    let a: flurry::HashMap<u32, u32, HB> = HintedRef { it: c.items.iter().map(|(k, v)| (k, v)), lo }.collect();
    if dump(&a) != model_of(&[], &c.items) || a.len() != model_of(&[], &c.items).len() {
        return Err(format!("collect::<HashMap> from (&K, &V) gave {:?}", dump(&a)));
    }
    // FromIterator<&(K, V)>
    let b: flurry::HashMap<u32, u32, HB> = HintedRef { it: c.items.iter(), lo }.collect();
    if dump(&b) != model_of(&[], &c.items) {
        return Err(format!("collect::<HashMap> from &(K, V) gave {:?}", dump(&b)));
    }
    if a != b {
        return Err("two maps collected from the same items are not equal".into());
    }
    // Extend<(&K, &V)> on a pre-filled map
    let e = flurry::HashMap::<u32, u32, HB>::with_hasher(HB(c.hmode));
    for (k, v) in &c.pre {
        e.pin().insert(*k, *v);
    }
    let mut er = &e;
    er.extend(HintedRef { it: c.items.iter().map(|(k, v)| (k, v)), lo });
    if dump(&e) != model_of(&c.pre, &c.items) {
        return Err(format!("extend by reference gave {:?}, expected {:?}", dump(&e), model_of(&c.pre, &c.items)));
    }
    // sets
    let want: BTreeSet<u32> = c.items.iter().map(|x| x.0).collect();
    let s: flurry::HashSet<u32, HB> = HintedRef { it: c.items.iter().map(|x| &x.0), lo }.collect();
    let sd: BTreeSet<u32> = {
        let g = s.guard();
        s.iter(&g).copied().collect()
    };
    if sd != want || s.len() != want.len() {
        return Err(format!("collect::<HashSet> from &T gave {:?}", sd));
    }
    let s2 = flurry::HashSet::<u32, HB>::with_hasher(HB(c.hmode));
    for (k, _) in &c.pre {
        s2.pin().insert(*k);
    }
    let mut s2r = &s2;
    s2r.extend(HintedRef { it: c.items.iter().map(|x| &x.0), lo });
    let want2: BTreeSet<u32> = c.pre.iter().chain(c.items.iter()).map(|x| x.0).collect();
    let sd2: BTreeSet<u32> = {
        let g = s2.guard();
        s2.iter(&g).copied().collect()
    };
    if sd2 != want2 {
        return Err(format!("set extend by reference gave {:?}, expected {:?}", sd2, want2));
    }
    Ok(())
}


/* ------------------------------------ C05 ------------------------------------ */

const C05_OR: Oracles = Oracles { returns: false, quiescent: true, ledger: false, canary: false, capacity: false, cmp_bound: false, growth: false };

fn c05_shard(ctx: &Ctx, out: &mut ShardOut) {
    let n_map = ctx.share(ctx.by_tier(15_000, 300_000)) as u32;
    let n_set = ctx.share(ctx.by_tier(1500, 40_000)) as u32;
    drive(ctx, "map", ctx.shard_seed(1), n_map, seq_case_strategy(false, 160), out, |c| {
        let s = run_map_case(c, C05_OR).map_err(|f| to_casefail("C05", f))?;
        Ok(CaseInfo { nontrivial: s.resizes + s.treeify + s.untreeify > 0, classes: stats_classes(&s), evaluations: s.steps.max(1), sub_hashes: vec![] })
    });
    drive(ctx, "set", ctx.shard_seed(2), n_set, seq_case_strategy(true, 120), out, |c| {
        let s = run_set_case(c, C05_OR).map_err(|f| to_casefail("C05", f))?;
        Ok(CaseInfo { nontrivial: s.resizes + s.treeify + s.untreeify > 0, classes: stats_classes(&s), evaluations: s.steps.max(1), sub_hashes: vec![] })
    });
    // quiescent points after concurrent histories (the executor checks agreement and well-formedness after join)
    let pool = crate::sched::Pool::new();
    let b = super::concchecks::budget_for(ctx.tier, ctx.shard_seed(5));
    super::concchecks::C05C.run(ctx, &pool, 21, ctx.share(ctx.by_tier(200, 8_000)) as u32, &b, out);
    super::concchecks::C05R.run(ctx, &pool, 22, ctx.share(ctx.by_tier(120, 6_000)) as u32, &b, out);
    let lb = Budget { single: 0, double: 0, coarse2: 0, tapes: ctx.by_tier(24, 200) as usize, tape_seed: ctx.shard_seed(94), triple: 0, stagger: 0 };
    super::concchecks::C05L.run(ctx, &pool, 23, ctx.share(ctx.by_tier(96, 3_000)) as u32, &lb, out);
    for (i, c) in super::concchecks::C05_EXTRA.iter().enumerate() {
        c.run(ctx, &pool, 26 + i as u64, ctx.share(ctx.by_tier(128, 3_000)) as u32, &b, out);
    }
    super::concchecks::C05T.run(ctx, &pool, 24, ctx.share(ctx.by_tier(160, 4_000)) as u32, &b, out);
    super::concchecks::C05H.run(ctx, &pool, 25, ctx.share(ctx.by_tier(96, 2_000)) as u32, &super::concchecks::helpers_budget(ctx.tier, ctx.shard_seed(8)), out);
    super::concchecks::C05F.run(ctx, &pool, 31, ctx.share(ctx.by_tier(160, 3_000)) as u32, &b, out);
    drop(pool);
    super::concchecks::C05W.run(ctx, &crate::sched::Pool::with_workers(super::concchecks::CROWD_WORKERS), 30, ctx.share(ctx.by_tier(128, 2_000)) as u32, &super::concchecks::crowd_budget(ctx.tier, ctx.shard_seed(9)), out);
}

fn c05_replay(sub: &str, case: &Value) -> Result<(), CaseFail> {
    match sub {
        "conc" => super::concchecks::C05C.replay(&crate::sched::Pool::new(), case, &super::concchecks::budget_for(Tier::Thorough, 1)),
        "conc-retain" | "conc-drain" | "conc-perkey" | "conc-compute" => super::concchecks::C05_EXTRA.iter().find(|c| c.sub == sub).unwrap().replay(&crate::sched::Pool::new(), case, &super::concchecks::budget_for(Tier::Thorough, 1)),
        "conc-first" => super::concchecks::C05F.replay(&crate::sched::Pool::new(), case, &super::concchecks::budget_for(Tier::Thorough, 1)),
        "conc-crowd" => super::concchecks::C05W.replay(&crate::sched::Pool::with_workers(super::concchecks::CROWD_WORKERS), case, &super::concchecks::crowd_budget(Tier::Thorough, 1)),
        "conc-helpers" => super::concchecks::C05H.replay(&crate::sched::Pool::new(), case, &super::concchecks::helpers_budget(Tier::Thorough, 1)),
        "conc-treemove" => super::concchecks::C05T.replay(&crate::sched::Pool::new(), case, &super::concchecks::budget_for(Tier::Thorough, 1)),
        "conc-resize" => super::concchecks::C05R.replay(&crate::sched::Pool::new(), case, &super::concchecks::budget_for(Tier::Thorough, 1)),
        "conc-long" => super::concchecks::C05L.replay(&crate::sched::Pool::new(), case, &Budget { single: 0, double: 0, coarse2: 0, tapes: 200, tape_seed: 1, triple: 0, stagger: 0 }),
        _ => replay_seq("C05", sub, case, C05_OR),
    }
}

/* ------------------------------------ C04 ------------------------------------ */

const C04_OR: Oracles = Oracles { returns: false, quiescent: false, ledger: true, canary: true, capacity: false, cmp_bound: false, growth: false };

fn c04_shard(ctx: &Ctx, out: &mut ShardOut) {
    let n_map = ctx.share(ctx.by_tier(15_000, 300_000)) as u32;
    let n_set = ctx.share(ctx.by_tier(1000, 30_000)) as u32;
    drive(ctx, "map", ctx.shard_seed(1), n_map, seq_case_strategy(false, 160), out, |c| {
        let s = run_map_case(c, C04_OR).map_err(|f| to_casefail("C04", f))?;
        let mut cl = stats_classes(&s);
        cl.push(("cases_reclaiming_before_teardown", (s.reclaimed_before_teardown > 0) as u64));
        cl.push(("cases_with_key_clones", (s.key_clones > 0) as u64));
        cl.push(("refused_try_inserts", s.refused_try_inserts));
        Ok(CaseInfo { nontrivial: s.reclaimed_before_teardown > 0 && s.key_clones > 0, classes: cl, evaluations: 1, sub_hashes: vec![] })
    });
    drive(ctx, "set", ctx.shard_seed(2), n_set, seq_case_strategy(true, 120), out, |c| {
        let _s = run_set_case(c, C04_OR).map_err(|f| to_casefail("C04", f))?;
        Ok(CaseInfo { nontrivial: false, classes: vec![("set_cases", 1)], evaluations: 1, sub_hashes: vec![] })
    });
    let pool = crate::sched::Pool::new();
    let b = super::concchecks::budget_for(ctx.tier, ctx.shard_seed(6));
    super::concchecks::C04C.run(ctx, &pool, 31, ctx.share(ctx.by_tier(240, 8_000)) as u32, &b, out);
    let hb = super::concchecks::helpers_budget(ctx.tier, ctx.shard_seed(7));
    for (i, c) in super::concchecks::C04_ALL.iter().enumerate().skip(1) {
        let helpers = c.sub == "conc-helpers";
        c.run(ctx, &pool, 32 + i as u64, ctx.share(ctx.by_tier(if helpers { 96 } else { 160 }, if helpers { 1_500 } else { 4_000 })) as u32, if helpers { &hb } else { &b }, out);
    }
    let lb = Budget { single: 0, double: 0, coarse2: 0, tapes: ctx.by_tier(24, 200) as usize, tape_seed: ctx.shard_seed(16), triple: 0, stagger: 0 };
    super::concchecks::C04L.run(ctx, &pool, 46, ctx.share(ctx.by_tier(128, 4_000)) as u32, &lb, out);
    drop(pool);
    super::concchecks::C04W.run(ctx, &crate::sched::Pool::with_workers(super::concchecks::CROWD_WORKERS), 45, ctx.share(ctx.by_tier(96, 1_500)) as u32, &super::concchecks::crowd_budget(ctx.tier, ctx.shard_seed(10)), out);
}

fn c04_replay(sub: &str, case: &Value) -> Result<(), CaseFail> {
    match sub {
        "conc-crowd" => super::concchecks::C04W.replay(&crate::sched::Pool::with_workers(super::concchecks::CROWD_WORKERS), case, &super::concchecks::crowd_budget(Tier::Thorough, 1)),
        "conc-long-mixed" => super::concchecks::C04L.replay(&crate::sched::Pool::new(), case, &Budget { single: 0, double: 0, coarse2: 0, tapes: 200, tape_seed: 1, triple: 0, stagger: 0 }),
        s if s.starts_with("conc") => {
            let c = super::concchecks::C04_ALL.iter().find(|c| c.sub == s).unwrap_or(&&super::concchecks::C04C);
            let b = if s == "conc-helpers" { super::concchecks::helpers_budget(Tier::Thorough, 1) } else { super::concchecks::budget_for(Tier::Thorough, 1) };
            c.replay(&crate::sched::Pool::new(), case, &b)
        }
        _ => replay_seq("C04", sub, case, C04_OR),
    }
}

/* ------------------------------------ C06 ------------------------------------ */

const C06_OR: Oracles = Oracles { returns: false, quiescent: true, ledger: false, canary: false, capacity: false, cmp_bound: true, growth: false };

/// collision-heavy configurations and adversarial insertion / removal orders
fn c06_case_strategy() -> impl Strategy<Value = SeqCase> {
    let hm = prop_oneof![3 => Just(HMode::Const0), 2 => Just(HMode::ConstMax), 3 => Just(HMode::SameBin), 2 => Just(HMode::High), 2 => Just(HMode::Mod4), 1 => Just(HMode::Identity), 2 => Just(HMode::PairBin), 2 => Just(HMode::FewHigh), 2 => Just(HMode::Shift4)];
    let cap = prop_oneof![3 => Just(43u32), 2 => Just(0u32), 1 => Just(16u32), 2 => Just(100u32), 1 => Just(300u32)];
    let uni = prop_oneof![2 => Just(24u16), 3 => Just(64u16), 3 => Just(128u16), 2 => Just(200u16)];
    (hm, cap, uni, facade_strategy(), batch_strategy()).prop_flat_map(|(hmode, capacity, universe, facade, batch)| {
        let keymap = if hmode == HMode::Identity { KeyMap::Mixed } else { KeyMap::Dense };
        let cfg = Cfg { hmode, capacity, facade, batch, universe, keymap, set: false };
        let u = universe;
        let pattern = prop_oneof![
            // ascending fill, then remove from the front (delete-root-like), zig-zag, random
            3 => (8u16..u, 0u16..u).prop_map(move |(n, d)| vec![Op::Fill(0, n), Op::Drain(0, d.min(n))]),
            2 => (8u16..u).prop_map(move |n| {
                let mut v = Vec::new();
                for i in (0..n).rev() {
                    v.push(Op::Insert(i));
                }
                v
            }),
            2 => (8u16..u).prop_map(move |n| {
                let mut v = Vec::new();
                for i in 0..n / 2 {
                    v.push(Op::Insert(i));
                    v.push(Op::Insert(n - 1 - i));
                }
                v
            }),
            2 => (8u16..u, any::<u16>()).prop_map(move |(n, step)| {
                // fill, then remove in a stride order (keeps hitting interior nodes)
                let mut v = vec![Op::Fill(0, n)];
                let st = (step % n.max(1)) | 1;
                let mut x = 0u16;
                for _ in 0..(n * 3 / 4) {
                    v.push(Op::Remove(x % n));
                    x = x.wrapping_add(st);
                }
                v
            }),
            3 => proptest::collection::vec(prop_oneof![5 => (0..u).prop_map(Op::Insert), 4 => (0..u).prop_map(Op::Remove), 1 => (0..u).prop_map(|k| Op::Compute(k, Act::Remove)), 1 => (0..u).prop_map(Op::Get), 1 => (0u16..400).prop_map(Op::Reserve), 1 => pred_strategy().prop_map(Op::Retain)], 20..160),
        ];
        (pattern.clone(), pattern).prop_map(move |(a, b)| {
            let mut ops = a;
            ops.extend(b);
            SeqCase { cfg: cfg.clone(), ops }
        })
    })
}

fn c06_shard(ctx: &Ctx, out: &mut ShardOut) {
    let n = ctx.share(ctx.by_tier(12_000, 200_000)) as u32;
    drive(ctx, "map", ctx.shard_seed(1), n, c06_case_strategy(), out, |c| {
        let s = run_map_case(c, C06_OR).map_err(|f| to_casefail("C06", f))?;
        let mut cl = stats_classes(&s);
        cl.push(("removals_from_trees_of_16_or_more", s.tree_removals_big));
        Ok(CaseInfo { nontrivial: s.tree_removals_big > 0, classes: cl, evaluations: s.steps.max(1), sub_hashes: vec![] })
    });
    // tree bins after concurrent histories (contended tree locks, migrations, conversions)
    let pool = crate::sched::Pool::new();
    let b = super::concchecks::budget_for(ctx.tier, ctx.shard_seed(11));
    super::concchecks::C06T.run(ctx, &pool, 51, ctx.share(ctx.by_tier(200, 4_000)) as u32, &b, out);
    super::concchecks::C06D.run(ctx, &pool, 52, ctx.share(ctx.by_tier(96, 2_000)) as u32, &b, out);
    drop(pool);
    super::concchecks::C06W.run(ctx, &crate::sched::Pool::with_workers(super::concchecks::CROWD_WORKERS), 53, ctx.share(ctx.by_tier(96, 1_500)) as u32, &super::concchecks::crowd_budget(ctx.tier, ctx.shard_seed(12)), out);
}

fn c06_replay(sub: &str, case: &Value) -> Result<(), CaseFail> {
    match sub {
        "tree-conc" => super::concchecks::C06T.replay(&crate::sched::Pool::new(), case, &super::concchecks::budget_for(Tier::Thorough, 1)),
        "tree-drain" => super::concchecks::C06D.replay(&crate::sched::Pool::new(), case, &super::concchecks::budget_for(Tier::Thorough, 1)),
        "tree-crowd" => super::concchecks::C06W.replay(&crate::sched::Pool::with_workers(super::concchecks::CROWD_WORKERS), case, &super::concchecks::crowd_budget(Tier::Thorough, 1)),
        _ => replay_seq("C06", sub, case, C06_OR),
    }
}

/* ------------------------------------ C14 ------------------------------------ */

const C14_OR: Oracles = Oracles { returns: false, quiescent: false, ledger: false, canary: false, capacity: true, cmp_bound: false, growth: false };

fn c14_case_strategy() -> impl Strategy<Value = SeqCase> {
    (capacity_strategy(), facade_strategy(), prop_oneof![Just(16u16), Just(32u16), Just(64u16), Just(200u16)]).prop_flat_map(|(capacity, facade, universe)| {
        let cfg = Cfg { hmode: HMode::Identity, capacity, facade, batch: 8, universe, keymap: KeyMap::Dense, set: false };
        let u = universe;
        let op = prop_oneof![
            20 => (0..u).prop_map(Op::Insert),
            4 => (0..u).prop_map(Op::TryInsert),
            8 => (0..u).prop_map(Op::Remove),
            3 => (0..u).prop_map(Op::RemoveEntry),
            8 => (0..u).prop_map(|k| Op::Compute(k, Act::Remove)),
            2 => (0..u).prop_map(|k| Op::Compute(k, Act::Inc)),
            3 => pred_strategy().prop_map(Op::Retain),
            3 => pred_strategy().prop_map(Op::RetainForce),
            1 => Just(Op::Clear),
            2 => (0u16..300).prop_map(Op::Reserve),
            2 => (proptest::collection::vec(0..u, 0..40), any::<u8>()).prop_map(|(i, h)| Op::Extend(i, h)),
            8 => (0..u, 1u16..30).prop_map(|(a, n)| Op::Fill(a, n)),
            4 => (0..u, 1u16..30).prop_map(|(a, n)| Op::Drain(a, n)),
            2 => (0..u).prop_map(Op::Get),
        ];
        proptest::collection::vec(op, 0..120).prop_map(move |ops| SeqCase { cfg: cfg.clone(), ops })
    })
}

#[derive(Clone, Debug, serde::Serialize, serde::Deserialize)]
pub struct SweepCase {
    /// 0 = with_capacity(c) then fill c; 1 = pre-fill `pre`, reserve(c), then c more
    pub kind: u8,
    pub c: u32,
    pub pre: u32,
}

fn table_len(m: &flurry::HashMap<u32, u32, HB>) -> usize {
    unsafe { m.verif_table_len() }
}

fn run_set_sweep_case(c: &SweepCase) -> Result<(), String> {
    type S = flurry::HashSet<u32, HB>;
    let tl = |s: &S| unsafe { s.verif_dump() }.table.map_or(0, |t| t.bins.len());
    let s = if c.kind == 2 { S::with_capacity_and_hasher(c.c as usize, HB(HMode::Identity)) } else { S::with_hasher(HB(HMode::Identity)) };
    let g = s.guard();
    if c.kind == 2 && c.c == 0 {
        if tl(&s) != 0 || tl(&S::default()) != 0 || flurry::HashSet::<u32>::new().len() != 0 {
            return Err("HashSet::with_capacity(0) / new() / default() allocated a table".into());
        }
        return Ok(());
    }
    let mut next = 0u32;
    if c.kind == 3 {
        for _ in 0..c.pre {
            s.insert(next, &g);
            next += 1;
        }
        s.reserve(c.c as usize, &g);
    }
    let n0 = tl(&s);
    if n0 == 0 || !n0.is_power_of_two() {
        return Err(format!("set table length {} after sizing for {}", n0, c.c));
    }
    for _ in 0..c.c {
        s.insert(next, &g);
        next += 1;
    }
    let n = tl(&s);
    if n != n0 {
        return Err(format!("{}: the set's table grew from {} to {} bins while inserting the {} elements it was sized for", if c.kind == 2 { format!("HashSet::with_capacity({})", c.c) } else { format!("{} elements + HashSet::reserve({})", c.pre, c.c) }, n0, n, c.c));
    }
    if s.len() as u32 != next {
        return Err(format!("set len() = {} after {} distinct inserts", s.len(), next));
    }
    Ok(())
}

fn run_sweep_case(c: &SweepCase) -> Result<(), String> {
    if c.kind >= 2 {
        return run_set_sweep_case(c);
    }
    let m = if c.kind == 0 { flurry::HashMap::<u32, u32, HB>::with_capacity_and_hasher(c.c as usize, HB(HMode::Identity)) } else { flurry::HashMap::<u32, u32, HB>::with_hasher(HB(HMode::Identity)) };
    let g = m.guard();
    if c.kind == 0 && c.c == 0 {
        if table_len(&m) != 0 {
            return Err("with_capacity(0) allocated a table".into());
        }
        if flurry::HashMap::<u32, u32>::new().len() != 0 || table_len(&flurry::HashMap::<u32, u32, HB>::default()) != 0 {
            return Err("new()/default() allocated a table".into());
        }
        return Ok(());
    }
    let mut next = 0u32;
    if c.kind == 1 {
        for _ in 0..c.pre {
            m.insert(next, next, &g);
            next += 1;
        }
        m.reserve(c.c as usize, &g);
    }
    let n0 = table_len(&m);
    if n0 == 0 || !n0.is_power_of_two() || n0 > (1 << 30) {
        return Err(format!("table length {} after {}", n0, if c.kind == 0 { format!("with_capacity({})", c.c) } else { format!("{} inserts and reserve({})", c.pre, c.c) }));
    }
    for i in 0..c.c {
        m.insert(next, next, &g);
        next += 1;
        let n = table_len(&m);
        if n != n0 {
            return Err(format!(
                "{}: the table grew from {} to {} bins at entry {} of the {} it was sized for (identity-hashed consecutive keys: no collisions beyond the table length)",
                if c.kind == 0 { format!("with_capacity({})", c.c) } else { format!("{} entries + reserve({})", c.pre, c.c) },
                n0,
                n,
                i + 1,
                c.c
            ));
        }
    }
    if m.len() as u32 != next {
        return Err(format!("len() = {} after {} distinct inserts", m.len(), next));
    }
    // resize bookkeeping of tables of every length (the generated histories stay below 2^12 bins):
    // idle state, next threshold three quarters of the length, and one more doubling on demand
    if c.c % 61 == 0 || c.c >= 4000 {
        let idle = |m: &flurry::HashMap<u32, u32, HB>, what: &str| -> Result<usize, String> {
            let d = unsafe { m.verif_dump() };
            let n = d.table.as_ref().map_or(0, |t| t.bins.len());
            if d.next_table.is_some() || d.size_ctl < 0 {
                return Err(format!("{}: the {}-bin map is still in a resizing state (size_ctl {}, next table {})", what, n, d.size_ctl, d.next_table.is_some()));
            }
            if d.size_ctl != (n - (n >> 2)) as isize {
                return Err(format!("{}: the next growth threshold of the {}-bin table is {} instead of {}", what, n, d.size_ctl, n - (n >> 2)));
            }
            Ok(n)
        };
        let n = idle(&m, "after filling the requested capacity")?;
        if n <= (1 << 17) {
            while (m.len()) < n - (n >> 2) {
                m.insert(next, next, &g);
                next += 1;
            }
            let n2 = idle(&m, "after growing once more")?;
            if n2 != 2 * n {
                return Err(format!("inserting up to the threshold of the {}-bin table left a table of {} bins", n, n2));
            }
        }
    }
    Ok(())
}

/// runs inside the probe child: build / reserve with a huge request and report the table length
/// (the allocator trap ends the process first if a table of 2^27 bins or more is requested)
pub fn capprobe_child(how: &str, c: usize) -> usize {
    match how {
        "with_capacity" => {
            let m = flurry::HashMap::<u32, u32, HB>::with_capacity_and_hasher(c, HB(HMode::Identity));
            let n = table_len(&m);
            std::mem::forget(m);
            n
        }
        "set_with_capacity" => {
            let s = flurry::HashSet::<u32, HB>::with_capacity_and_hasher(c, HB(HMode::Identity));
            let n = unsafe { s.verif_dump() }.table.as_ref().map_or(0, |t| t.bins.len());
            std::mem::forget(s);
            n
        }
        _ => {
            let m = flurry::HashMap::<u32, u32, HB>::with_hasher(HB(HMode::Identity));
            m.pin().reserve(c);
            let n = table_len(&m);
            std::mem::forget(m);
            n
        }
    }
}

/// requests that no table can satisfy: the answer must be a table of exactly 2^30 bins (seen as
/// an allocation request of 2^30 pointers by the trap in the child) or a panic, never a table of
/// some other length
fn huge_capacity_probes(ctx: &Ctx, out: &mut ShardOut) {
    let cs: [usize; 16] = [
        (1 << 29) - 1,
        1 << 29,
        (1 << 30) + 7,
        1 << 40,
        isize::MAX as usize,
        usize::MAX,
        usize::MAX / 2 + 1,
        usize::MAX / 3,
        0x5555_5555_5555_5554,
        0x5555_5555_5555_5555,
        0x5555_5555_5555_5556,
        0xAAAA_AAAA_AAAA_AAAA,
        0xAAAA_AAAA_AAAA_AAAB,
        0xAAAA_AAAA_AAAA_AAAC,
        1 << 62,
        (1 << 63) + 1,
    ];
    let exe = match std::env::current_exe() {
        Ok(e) => e,
        Err(_) => return,
    };
    for how in ["with_capacity", "reserve_new", "set_with_capacity"] {
        for c in cs {
            let case = serde_json::json!({"how": how, "c": c.to_string()});
            ctx.mark_inflight("huge", &case.to_string());
            out.evaluations += 1;
            out.class("huge_capacity_requests_probed_in_a_child_process", 1);
            if let Err(m) = run_huge_probe(&exe, how, c) {
                out.violations.push(Viol { prop: "C14".into(), msg: format!("[C14] {}", m), replay: serde_json::json!({"sub": "huge", "case": case}) });
                return;
            }
        }
    }
}

pub fn run_huge_probe(exe: &std::path::Path, how: &str, c: usize) -> Result<(), String> {
    let o = std::process::Command::new(exe).args(["capprobe", how, &c.to_string()]).stderr(std::process::Stdio::null()).output().map_err(|e| format!("cannot run the probe child: {}", e))?;
    let text = String::from_utf8_lossy(&o.stdout).trim().to_string();
    match o.status.code() {
        Some(77) => Ok(()),
        Some(78) => Err(format!("{}({:#x}) asked the allocator for a block of 1 GiB or more that is not a table of 2^30 bins", how, c)),
        Some(0) if text == "PANIC" => Ok(()),
        Some(0) => Err(format!("{}({:#x}) returned a table of {} bins (the request cannot be met: the table must have 2^30 bins, or the call must panic)", how, c, text.trim_start_matches("LEN "))),
        other => Err(format!("{}({:#x}): the probe child ended with {:?} {:?}", how, c, other, text)),
    }
}

fn c14_shard(ctx: &Ctx, out: &mut ShardOut) {
    if ctx.shard == 0 {
        huge_capacity_probes(ctx, out);
    }
    let n = ctx.share(ctx.by_tier(20_000, 300_000)) as u32;
    drive(ctx, "map", ctx.shard_seed(1), n, c14_case_strategy(), out, |c| {
        let s = run_map_case(c, C14_OR).map_err(|f| to_casefail("C14", f))?;
        let mut cl = stats_classes(&s);
        cl.push(("removals_within_2_of_threshold", s.removal_near_threshold));
        Ok(CaseInfo { nontrivial: s.removal_near_threshold > 0, classes: cl, evaluations: s.steps.max(1), sub_hashes: vec![] })
    });
    // the same policy predicate under colliding hashers and mixed key maps (overfull bins in tables
    // shorter than 64 may grow the table; crowded bins in 64-bin and longer tables must not)
    drive(ctx, "map-collide", ctx.shard_seed(3), ctx.share(ctx.by_tier(12_000, 150_000)) as u32, seq_case_strategy(false, 160), out, |c| {
        let s = run_map_case(c, C14_OR).map_err(|f| to_casefail("C14", f))?;
        Ok(CaseInfo { nontrivial: s.treeify > 0 || s.resizes > 0, classes: vec![("colliding_cases_with_tree_bins", (s.treeify > 0) as u64), ("colliding_cases_with_resizes", (s.resizes > 0) as u64)], evaluations: s.steps.max(1), sub_hashes: vec![] })
    });
    // the growth rule after concurrent histories (first operations racing on an unallocated map,
    // resizes with one and with several helpers)
    {
        use super::concchecks as cc;
        let pool = crate::sched::Pool::new();
        cc::C14F.run(ctx, &pool, 61, ctx.share(ctx.by_tier(280, 6_000)) as u32, &cc::budget_for(ctx.tier, ctx.shard_seed(13)), out);
        cc::C14Z.run(ctx, &pool, 62, ctx.share(ctx.by_tier(120, 3_000)) as u32, &cc::budget_for(ctx.tier, ctx.shard_seed(14)), out);
        cc::C14H.run(ctx, &pool, 63, ctx.share(ctx.by_tier(64, 1_500)) as u32, &cc::helpers_budget(ctx.tier, ctx.shard_seed(15)), out);
    }
    // capacity sweep: an enumeration, sharded by residue class
    let max_c: u32 = ctx.by_tier(6000, 20_000) as u32;
    let mut cases: Vec<SweepCase> = (0..=max_c).map(|c| SweepCase { kind: 0, c, pre: 0 }).collect();
    let top = ctx.by_tier(17, 21) as u32;
    for p in 12..=top {
        for d in [-1i64, 0, 1] {
            cases.push(SweepCase { kind: 0, c: ((1i64 << p) + d) as u32, pre: 0 });
        }
    }
    for a in (1..=max_c / 2).step_by(3) {
        for pre in [0u32, 1, 5, 12, 13, 100] {
            cases.push(SweepCase { kind: 1, c: a, pre });
        }
    }
    // the HashSet wrappers of the same contract (coarser)
    for c in (0..=max_c).step_by(7).chain([1u32, 2, 3, 11, 12, 13, 48, 49]) {
        cases.push(SweepCase { kind: 2, c, pre: 0 });
    }
    for a in (1..=max_c / 4).step_by(11) {
        for pre in [0u32, 5, 12] {
            cases.push(SweepCase { kind: 3, c: a, pre });
        }
    }
    for (i, c) in cases.iter().enumerate() {
        if i % ctx.nshards != ctx.shard {
            continue;
        }
        let js = serde_json::to_string(c).unwrap();
        ctx.mark_inflight("sweep", &js);
        out.evaluations += 1;
        match run_sweep_case(c) {
            Ok(()) => {
                out.nontrivial.insert(hash_str(&js));
                if c.c == 1000 {
                    out.sample(serde_json::json!({"sub": "sweep", "case": c}), 6);
                }
            }
            Err(m) => {
                out.violations.push(Viol { prop: "C14".into(), msg: format!("[C14] {}", m), replay: serde_json::json!({"sub": "sweep", "case": c}) });
                break;
            }
        }
    }
    out.class("sweep_cases", (cases.len() / ctx.nshards) as u64);
    out.exhaustive_parts.push(format!("with_capacity(c) for every c in 0..={} and 2^p-1, 2^p, 2^p+1 for p in 12..={}; reserve(a) for every third a up to {} on six fill levels", max_c, top, max_c / 2));
}

fn c14_replay(sub: &str, case: &Value) -> Result<(), CaseFail> {
    if sub == "huge" {
        let how = case["how"].as_str().unwrap_or("with_capacity").to_string();
        let c: usize = case["c"].as_str().and_then(|s| s.parse().ok()).unwrap_or(0);
        let exe = std::env::current_exe().map_err(|e| CaseFail { prop: "C14".into(), msg: e.to_string() })?;
        return run_huge_probe(&exe, &how, c).map_err(|m| CaseFail { prop: "C14".into(), msg: format!("[C14] {}", m) });
    }
    if sub == "sweep" {
        let c: SweepCase = serde_json::from_value(case.clone()).map_err(|e| CaseFail { prop: "C14".into(), msg: format!("bad replay file: {}", e) })?;
        return run_sweep_case(&c).map_err(|m| CaseFail { prop: "C14".into(), msg: format!("[C14] {}", m) });
    }
    match sub {
        "cap-first" => return super::concchecks::C14F.replay(&crate::sched::Pool::new(), case, &super::concchecks::budget_for(Tier::Thorough, 1)),
        "cap-resize" => return super::concchecks::C14Z.replay(&crate::sched::Pool::new(), case, &super::concchecks::budget_for(Tier::Thorough, 1)),
        "cap-helpers" => return super::concchecks::C14H.replay(&crate::sched::Pool::new(), case, &super::concchecks::helpers_budget(Tier::Thorough, 1)),
        _ => {}
    }
    replay_seq("C14", sub, case, C14_OR)
}

pub fn defs() -> Vec<PropDef> {
    vec![PropDef {
        id: "C02",
        level: "exploration",
        rule: "proptest-generated operation sequences (<= 200 ops; hasher, capacity, facade, batch size, universe all generated) run against flurry HashMap / HashSet and a BTreeMap model with full comparison after every step; a case is non-trivial when it exercised at least two of {resize, treeify, untreeify, tree-bin split, clear of a tree bin, clone of a tree-holding map, collect() that had to transfer}; distinct = hash of the serialized case",
        assumptions: &["the BTreeMap model and the interpretation of each Op are correct", "K/V instrumentation (Eq/Ord/Hash on the tag) is a lawful key type"],
        run_shard: c02_shard,
        replay: c02_replay,
        shards: super::sixteen,
        watchdog: |t| if t == Tier::Quick { 900 } else { 6 * 3600 },
    },
    PropDef {
        id: "C05",
        level: "exploration",
        rule: "every step of proptest-generated sequential histories (map and set; all hashers, capacities, facades) and the join point of every explored concurrent execution is a quiescent point; there iteration (iter/keys/values) must yield exactly the keys for which get succeeds, once each and with the same value, len/is_empty must agree, and the inspector must find: power-of-two table, every node in bin hash&(n-1), no key twice, no forwarding marker, next_table null, size_ctl = 0.75 n, count = number of nodes, all bin locks free, tree lock states 0, red-black/list consistency of tree bins; evaluations = quiescent points checked; non-trivial = the history contained a completed resize or tree conversion; distinct = hash of the case (x preemptions)",
        assumptions: &["the inspector reads the structure without synchronisation while no operation is in flight", "concurrent part: as C01"],
        run_shard: c05_shard,
        replay: c05_replay,
        shards: super::sixteen,
        watchdog: |t| if t == Tier::Quick { 1200 } else { 8 * 3600 },
    },
    PropDef {
        id: "C04",
        level: "exploration",
        rule: "generated sequential histories (all operations incl. refused try_insert, clear, retain, resize, treeify/untreeify; collector batch sizes 1..120; guards per operation / long-lived / refreshed) and explored concurrent executions; every K and V instance ever created (incl. clones made by the map) is ledgered; after dropping the map each must have been dropped exactly once, nothing still stored may be dropped earlier, a displaced value must not be dropped while a harness guard created before the displacing call is alive, references obtained under a guard must be intact when it is released; non-trivial = at least one displaced value was reclaimed before map teardown and at least one key clone was made; distinct = hash of the case",
        assumptions: &["only K/V instances are ledgered (node/table allocations are covered by C03's allocator oracle)", "guards created inside pin() are invisible to the 'live observer' rule (sound: fewer guards judged)"],
        run_shard: c04_shard,
        replay: c04_replay,
        shards: super::sixteen,
        watchdog: |t| if t == Tier::Quick { 1200 } else { 8 * 3600 },
    },
    PropDef {
        id: "C06",
        level: "exploration",
        rule: "collision generators only (constant hashes; same bin with distinct hashes; 4 bins), tables >= 64 reached by capacity or growth, 8-200 colliding keys, insertion/removal orders from ascending/descending/zig-zag/stride patterns and random mixes, trees created by treeification and by resize splits; after every step the inspector checks each tree bin (BST order by (hash,key), root black, no red-red, equal black height, parent/child and prev/next consistency, list = tree) and get() of every universe key (present or absent) in a bin of n >= 8 entries of a table >= 64 must use <= ceil(4*log2(n+1))+2 key comparisons (counted by the key type); evaluations = steps checked; non-trivial = a removal from a tree of >= 16 nodes happened; distinct = hash of the case; plus scheduled sub-checks (tree-conc, tree-drain, tree-crowd): after every explored schedule of programs whose threads contend for, migrate or convert a tree bin, get() of every stored key and of the absent hot keys in every tree bin must meet the same comparison bound and the inspector's tree invariants must hold (non-trivial there = the schedule ended with a tree bin and a thread parked, blocked or a conversion happened)",
        assumptions: &["comparison counts are those of the instrumented key type's Eq/Ord"],
        run_shard: c06_shard,
        replay: c06_replay,
        shards: super::sixteen,
        watchdog: |t| if t == Tier::Quick { 1200 } else { 8 * 3600 },
    },
    PropDef {
        id: "C14",
        level: "exploration",
        rule: "(a) enumeration: with_capacity(c) then c identity-hashed consecutive keys must not change the table length, for every c in the swept range and around powers of two; reserve(a) likewise on six fill levels; capacity 0 allocates nothing; (b) generated sequences over identity-hashed dense keys: after every operation the table length must be a power of two <= 2^30, never shrink, and change only by a power-of-two factor and only through reserve/extend or an insert of a new key that brought the count to >= 0.75 n or met a bin of >= 8 nodes in a table < 64 - never through remove, remove_entry, a removing compute_if_present, retain, retain_force, clear or replacing insert; evaluations = steps + sweep cases; non-trivial = a removal executed with the count within 2 of the threshold (sequences) / every sweep case; distinct = hash of the case; (c) scheduled sub-checks cap-first / cap-resize / cap-helpers: after every explored schedule of programs whose threads race the first operations on an unallocated map (lazy initialisation against reserve and inserts) or resize it with one or several helpers, the idle size_ctl must be three quarters of the table length and fresh keys inserted from the main thread must not grow the table before the count reaches that threshold (non-trivial there = the schedule allocated or resized the table)",
        assumptions: &["capacities above 2^21 are not exercised (memory)"],
        run_shard: c14_shard,
        replay: c14_replay,
        shards: super::sixteen,
        watchdog: |t| if t == Tier::Quick { 1200 } else { 8 * 3600 },
    }]
}
