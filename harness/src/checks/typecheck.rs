//! E6: C16 / C17 — programs generated from the registries of borrow-returning and inserting entry
//! points, pushed through the compiler (`cargo check --message-format=json` on a scratch crate that
//! depends on /repo).  Negative programs must be rejected with a borrow / Send-Sync diagnostic on
//! their own lines, their positive twins must compile.
use crate::runner::*;
use crate::PropDef;
use serde_json::Value;
use std::collections::BTreeMap;
use std::path::PathBuf;
use std::process::Command;

struct Func {
    name: String,
    /// true = must be rejected
    negative: bool,
    /// (entry point, misuse / type position)
    what: (String, String),
    body: String,
    twin: Option<String>,
}

const PRELUDE_16: &str = r#"#![allow(unused, dead_code, clippy::all)]
use flurry::{HashMap, HashSet};
type M = HashMap<String, String>;
type S = HashSet<String>;
fn mk() -> M { let m = M::new(); m.pin().insert("a".to_string(), "b".to_string()); m }
fn mks() -> S { let s = S::new(); s.pin().insert("a".to_string()); s }
fn k() -> String { "a".to_string() }
fn use_it<T>(_t: T) {}
"#;

/// (name, expression producing a borrow from `map` and `guard`, is_set)
fn guard_entries() -> Vec<(&'static str, &'static str, bool)> {
    vec![
        ("HashMap::get", "map.get(&k(), &guard)", false),
        ("HashMap::get_key_value", "map.get_key_value(&k(), &guard)", false),
        ("HashMap::insert", "map.insert(k(), k(), &guard)", false),
        ("HashMap::try_insert(Ok)", "map.try_insert(\"zz\".to_string(), k(), &guard).ok()", false),
        ("HashMap::try_insert(Err.current)", "map.try_insert(k(), k(), &guard).err().map(|e| e.current)", false),
        ("HashMap::compute_if_present", "map.compute_if_present(&k(), |_, v| Some(v.clone()), &guard)", false),
        ("HashMap::remove", "map.remove(&k(), &guard)", false),
        ("HashMap::remove_entry", "map.remove_entry(&k(), &guard)", false),
        ("HashMap::iter", "map.iter(&guard)", false),
        ("HashMap::keys", "map.keys(&guard)", false),
        ("HashMap::values", "map.values(&guard)", false),
        ("HashMap::iter().next()", "map.iter(&guard).next()", false),
        ("HashMap::keys().next()", "map.keys(&guard).next()", false),
        ("HashMap::values().next()", "map.values(&guard).next()", false),
        ("HashMap::with_guard", "map.with_guard(&guard)", false),
        // each half of a pair on its own: the two references may carry different lifetimes
        ("HashMap::get_key_value (key half)", "map.get_key_value(&k(), &guard).map(|kv| kv.0)", false),
        ("HashMap::get_key_value (value half)", "map.get_key_value(&k(), &guard).map(|kv| kv.1)", false),
        ("HashMap::remove_entry (key half)", "map.remove_entry(&k(), &guard).map(|kv| kv.0)", false),
        ("HashMap::remove_entry (value half)", "map.remove_entry(&k(), &guard).map(|kv| kv.1)", false),
        ("HashMap::iter().next() (key half)", "map.iter(&guard).next().map(|kv| kv.0)", false),
        ("HashMap::iter().next() (value half)", "map.iter(&guard).next().map(|kv| kv.1)", false),
        ("HashMap::try_insert(Ok) by value", "map.try_insert(\"zz\".to_string(), k(), &guard).map_err(|_| ())", false),
        ("HashSet::get", "map.get(&k(), &guard)", true),
        ("HashSet::take", "map.take(&k(), &guard)", true),
        ("HashSet::iter", "map.iter(&guard)", true),
        ("HashSet::iter().next()", "map.iter(&guard).next()", true),
        ("HashSet::with_guard", "map.with_guard(&guard)", true),
    ]
}

/// (name, expression producing a borrow from the wrapper `r`, is_set)
fn ref_entries() -> Vec<(&'static str, &'static str, bool)> {
    vec![
        ("HashMapRef::get", "r.get(&k())", false),
        ("HashMapRef::get_key_value", "r.get_key_value(&k())", false),
        ("HashMapRef::insert", "r.insert(k(), k())", false),
        ("HashMapRef::try_insert", "r.try_insert(k(), k()).err().map(|e| e.current)", false),
        ("HashMapRef::compute_if_present", "r.compute_if_present(&k(), |_, v| Some(v.clone()))", false),
        ("HashMapRef::remove", "r.remove(&k())", false),
        ("HashMapRef::remove_entry", "r.remove_entry(&k())", false),
        ("HashMapRef::iter", "r.iter()", false),
        ("HashMapRef::keys", "r.keys()", false),
        ("HashMapRef::values", "r.values()", false),
        ("HashMapRef::index", "&r[&k()]", false),
        ("HashMapRef::into_iter", "(&r).into_iter()", false),
        ("HashMapRef::get_key_value (key half)", "r.get_key_value(&k()).map(|kv| kv.0)", false),
        ("HashMapRef::get_key_value (value half)", "r.get_key_value(&k()).map(|kv| kv.1)", false),
        ("HashMapRef::remove_entry (key half)", "r.remove_entry(&k()).map(|kv| kv.0)", false),
        ("HashMapRef::remove_entry (value half)", "r.remove_entry(&k()).map(|kv| kv.1)", false),
        ("HashMapRef::iter().next() (key half)", "r.iter().next().map(|kv| kv.0)", false),
        ("HashMapRef::iter().next() (value half)", "r.iter().next().map(|kv| kv.1)", false),
        ("HashMapRef::keys().next()", "r.keys().next()", false),
        ("HashMapRef::values().next()", "r.values().next()", false),
        ("HashMapRef::into_iter().next() (value half)", "(&r).into_iter().next().map(|kv| kv.1)", false),
        ("HashMapRef::try_insert(Ok)", "r.try_insert(\"zz\".to_string(), k()).ok()", false),
        ("HashSetRef::iter().next()", "r.iter().next()", true),
        ("HashSetRef::get", "r.get(&k())", true),
        ("HashSetRef::take", "r.take(&k())", true),
        ("HashSetRef::iter", "r.iter()", true),
        ("HashSetRef::into_iter", "(&r).into_iter()", true),
    ]
}

fn gen_c16() -> (String, Vec<Func>) {
    let mut fs: Vec<Func> = Vec::new();
    let mut id = 0;
    let mut add = |fs: &mut Vec<Func>, negative: bool, what: (&str, &str), body: String, twin: Option<String>| -> String {
        id += 1;
        let name = format!("{}_{:03}", if negative { "neg" } else { "pos" }, id);
        fs.push(Func { name: name.clone(), negative, what: (what.0.to_string(), what.1.to_string()), body, twin });
        name
    };
    for (name, expr, is_set) in guard_entries() {
        let mk = if is_set { "mks()" } else { "mk()" };
        // drop the guard
        let p = add(&mut fs, false, (name, "use before dropping the guard"), format!("let map = {mk}; let guard = map.guard(); let r = {expr}; use_it(r); drop(guard);"), None);
        add(&mut fs, true, (name, "use after dropping the guard"), format!("let map = {mk}; let guard = map.guard(); let r = {expr}; drop(guard); use_it(r);"), Some(p));
        // refresh the guard
        let p = add(&mut fs, false, (name, "use before refreshing the guard"), format!("let map = {mk}; let mut guard = map.guard(); let r = {expr}; use_it(r); guard.refresh();"), None);
        add(&mut fs, true, (name, "use after refreshing the guard"), format!("let map = {mk}; let mut guard = map.guard(); let r = {expr}; guard.refresh(); use_it(r);"), Some(p));
        // drop / move the map (the guard is not derived from the map, so only the result ties them)
        let p = add(&mut fs, false, (name, "use before dropping the map"), format!("let map = {mk}; let guard = unsafe {{ seize::Guard::unprotected() }}; let r = {expr}; use_it(r); drop(map);"), None);
        add(&mut fs, true, (name, "use after dropping the map"), format!("let map = {mk}; let guard = unsafe {{ seize::Guard::unprotected() }}; let r = {expr}; drop(map); use_it(r);"), Some(p.clone()));
        add(&mut fs, true, (name, "use after moving the map away"), format!("let map = {mk}; let guard = unsafe {{ seize::Guard::unprotected() }}; let r = {expr}; let moved = map; use_it(r); drop(moved);"), Some(p));
        // let the result escape the scope of the guard / of the map
        let p = add(&mut fs, false, (name, "result used inside the guard's scope"), format!("let map = {mk}; {{ let guard = map.guard(); let r = {expr}; use_it(r); }}"), None);
        add(&mut fs, true, (name, "result escapes the guard's scope"), format!("let map = {mk}; let r = {{ let guard = map.guard(); {expr} }}; use_it(r);"), Some(p.clone()));
        add(&mut fs, true, (name, "result escapes the map's scope"), format!("let guard = unsafe {{ seize::Guard::unprotected() }}; let r = {{ let map = {mk}; {expr} }}; use_it(r);"), Some(p));
    }
    for (name, expr, is_set) in ref_entries() {
        let mk = if is_set { "mks()" } else { "mk()" };
        for (how, ctor) in [("pin()", "map.pin()"), ("with_guard()", "map.with_guard(&guard)")] {
            let g = if how == "pin()" { "" } else { "let guard = map.guard();" };
            let w = format!("{} via {}", name, how);
            let p = add(&mut fs, false, (&w, "use before dropping the reference wrapper"), format!("let map = {mk}; {g} let r = {ctor}; let x = {expr}; use_it(x); drop(r);"), None);
            add(&mut fs, true, (&w, "use after dropping the reference wrapper"), format!("let map = {mk}; {g} let r = {ctor}; let x = {expr}; drop(r); use_it(x);"), Some(p.clone()));
            add(&mut fs, true, (&w, "result escapes the wrapper's scope"), format!("let map = {mk}; {g} let x = {{ let r = {ctor}; {expr} }}; use_it(x);"), Some(p.clone()));
            add(&mut fs, true, (&w, "use after dropping the map"), format!("let map = {mk}; {g} let r = {ctor}; let x = {expr}; drop(map); use_it(x);"), Some(p));
        }
    }
    // the handles themselves
    let p = add(&mut fs, false, ("HashMap::guard", "guard used before the map is dropped"), "let map = mk(); let guard = map.guard(); use_it(&guard); drop(guard); drop(map);".into(), None);
    add(&mut fs, true, ("HashMap::guard", "guard used after the map is dropped"), "let map = mk(); let guard = map.guard(); drop(map); use_it(&guard);".into(), Some(p));
    let p = add(&mut fs, false, ("HashMap::pin", "pin used before the map is dropped"), "let map = mk(); let r = map.pin(); use_it(r.len()); drop(r); drop(map);".into(), None);
    add(&mut fs, true, ("HashMap::pin", "pin used after the map is dropped"), "let map = mk(); let r = map.pin(); drop(map); use_it(r.len());".into(), Some(p));
    let p = add(&mut fs, false, ("HashSet::guard", "guard used before the set is dropped"), "let map = mks(); let guard = map.guard(); use_it(&guard); drop(guard); drop(map);".into(), None);
    add(&mut fs, true, ("HashSet::guard", "guard used after the set is dropped"), "let map = mks(); let guard = map.guard(); drop(map); use_it(&guard);".into(), Some(p));
    let p = add(&mut fs, false, ("HashSet::pin", "pin used before the set is dropped"), "let map = mks(); let r = map.pin(); use_it(r.len()); drop(r); drop(map);".into(), None);
    add(&mut fs, true, ("HashSet::pin", "pin used after the set is dropped"), "let map = mks(); let r = map.pin(); drop(map); use_it(r.len());".into(), Some(p));
    // positives: items outlive the iterator; non-'static keys, values and lookup keys
    add(&mut fs, false, ("Iter::next", "item outlives the iterator"), "let map = mk(); let guard = map.guard(); let x = { let mut it = map.iter(&guard); it.next() }; use_it(x);".into(), None);
    add(&mut fs, false, ("Keys::next", "item outlives the iterator"), "let map = mk(); let guard = map.guard(); let x = { let mut it = map.keys(&guard); it.next() }; use_it(x);".into(), None);
    add(&mut fs, false, ("Values::next", "item outlives the iterator"), "let map = mk(); let guard = map.guard(); let x = { let mut it = map.values(&guard); it.next() }; use_it(x);".into(), None);
    add(
        &mut fs,
        false,
        ("non-'static K, V, Q", "borrowed keys and values"),
        "let text = String::from(\"alpha beta\"); let words: Vec<&str> = text.split(' ').collect(); let map: HashMap<&str, &str> = HashMap::new(); let guard = map.guard(); map.insert(words[0], words[1], &guard); let probe = String::from(\"alpha\"); use_it(map.get(probe.as_str(), &guard)); use_it(map.pin().get(probe.as_str()).copied()); let set: HashSet<&str> = HashSet::new(); set.pin().insert(words[0]); use_it(set.pin().contains(probe.as_str()));".into(),
        None,
    );
    // the converse clause across the whole API: nothing may demand 'static keys, values or lookup keys
    let ns = "let text = String::from(\"alpha beta gamma\"); let words: Vec<&str> = text.split(' ').collect(); let map: HashMap<&str, &str> = HashMap::new(); let guard = map.guard();";
    let non_static: Vec<(&str, String)> = vec![
        ("updates", format!("{ns} map.insert(words[0], words[1], &guard); use_it(map.try_insert(words[1], words[2], &guard).is_ok()); use_it(map.compute_if_present(words[0], |_, v| Some(*v), &guard)); use_it(map.remove_entry(words[0], &guard)); use_it(map.remove(words[1], &guard)); map.retain(|k, _| k.len() > 1, &guard); map.retain_force(|_, v| v.len() > 1, &guard); map.reserve(3, &guard); map.clear(&guard);")),
        ("reference wrappers", format!("{ns} let r = map.pin(); r.insert(words[0], words[1]); use_it(r.get(words[0])); use_it(r.get_key_value(words[0])); use_it(r.contains_key(words[1])); use_it(r.try_insert(words[1], words[2]).is_ok()); use_it(r.compute_if_present(words[0], |_, v| Some(*v))); use_it(r.remove_entry(words[0])); r.retain(|_, _| true); use_it(r.iter().count()); use_it(r.keys().count()); use_it(r.values().count()); let w = map.with_guard(&guard); use_it(w.get(words[2]));")),
        ("bulk traits", format!("{ns} let pairs: Vec<(&str, &str)> = vec![(words[0], words[1]), (words[1], words[2])]; (&map).extend(pairs.clone()); (&map).extend(pairs.iter().map(|(k, v)| (k, v))); let c1: HashMap<&str, &str> = pairs.clone().into_iter().collect(); let c2: HashMap<&str, &str> = pairs.iter().collect(); let c3: HashMap<&str, &str> = pairs.iter().map(|(k, v)| (k, v)).collect(); let c4 = c1.clone(); use_it(c1 == c4); use_it(c2 == c3); use_it(format!(\"{{:?}}\", c4)); use_it(map.pin() == c4.pin());")),
        ("sets", format!("{ns} let set: HashSet<&str> = HashSet::new(); let g = set.guard(); use_it(set.insert(words[0], &g)); use_it(set.contains(words[0], &g)); use_it(set.get(words[0], &g)); use_it(set.take(words[0], &g)); use_it(set.remove(words[1], &g)); set.retain(|k| k.len() > 2, &g); (&set).extend(words.clone()); (&set).extend(words.iter()); let s2: HashSet<&str> = words.iter().copied().collect(); let s3: HashSet<&str> = words.iter().collect(); use_it(set.is_subset(&s2, &g, &s2.guard())); use_it(s2 == s3); use_it(s2.clone().len()); use_it(format!(\"{{:?}}\", s3)); use_it(set.pin().iter().count());")),
        ("serde and rayon", format!("{ns} map.insert(words[0], words[1], &guard); use_it(serde_json::to_string(&map).is_ok()); use_it(serde_json::to_string(&map.pin()).is_ok()); let back: HashMap<&str, u32> = serde_json::from_str(\"{{}}\").unwrap(); use_it(back.len()); let set: HashSet<&str> = HashSet::new(); use_it(serde_json::to_string(&set).is_ok()); {{ use rayon::prelude::*; let pairs: Vec<(&str, &str)> = vec![(words[0], words[1])]; (&map).par_extend(pairs.clone().into_par_iter()); let pm: HashMap<&str, &str> = pairs.into_par_iter().collect(); use_it(pm.len()); (&set).par_extend(words.clone().into_par_iter()); let ps: HashSet<&str> = words.clone().into_par_iter().collect(); use_it(ps.len()); }}")),
    ];
    for (what, body) in non_static {
        add(&mut fs, false, ("non-'static K, V, Q", what), body, None);
    }
    add(
        &mut fs,
        false,
        ("Borrow lookups", "String keys looked up by &str"),
        "let map = mk(); let guard = map.guard(); use_it(map.get(\"a\", &guard)); use_it(map.contains_key(\"a\", &guard)); use_it(map.remove(\"a\", &guard)); let s = mks(); use_it(s.pin().contains(\"a\"));".into(),
        None,
    );
    let mut src = String::from(PRELUDE_16);
    for f in &fs {
        src.push_str(&format!("pub fn {}() {{ {} }}\n", f.name, f.body));
    }
    (src, fs)
}

const PRELUDE_17: &str = r#"#![allow(unused, dead_code, clippy::all)]
use flurry::{HashMap, HashSet};
use rayon::prelude::*;
use std::rc::Rc;
use std::hash::{Hash, Hasher};
fn use_it<T>(_t: T) {}
fn needs_de<T: serde::de::DeserializeOwned>() {}

/// Send but not Sync
#[derive(Default)]
pub struct SendNotSync(std::cell::Cell<i32>);
impl Clone for SendNotSync { fn clone(&self) -> Self { SendNotSync(std::cell::Cell::new(self.0.get())) } }
impl PartialEq for SendNotSync { fn eq(&self, o: &Self) -> bool { self.0.get() == o.0.get() } }
impl Eq for SendNotSync {}
impl PartialOrd for SendNotSync { fn partial_cmp(&self, o: &Self) -> Option<std::cmp::Ordering> { Some(self.cmp(o)) } }
impl Ord for SendNotSync { fn cmp(&self, o: &Self) -> std::cmp::Ordering { self.0.get().cmp(&o.0.get()) } }
impl Hash for SendNotSync { fn hash<H: Hasher>(&self, h: &mut H) { self.0.get().hash(h) } }
impl<'de> serde::Deserialize<'de> for SendNotSync { fn deserialize<D: serde::Deserializer<'de>>(d: D) -> Result<Self, D::Error> { Ok(SendNotSync(std::cell::Cell::new(i32::deserialize(d)?))) } }

/// Sync but not Send
#[derive(Clone, PartialEq, Eq, PartialOrd, Ord, Hash, Default)]
pub struct SyncNotSend(i32, std::marker::PhantomData<std::sync::MutexGuard<'static, i32>>);
impl<'de> serde::Deserialize<'de> for SyncNotSend { fn deserialize<D: serde::Deserializer<'de>>(d: D) -> Result<Self, D::Error> { Ok(SyncNotSend(i32::deserialize(d)?, std::marker::PhantomData)) } }

/// neither (Rc), with the other bounds satisfied
#[derive(Clone, PartialEq, Eq, PartialOrd, Ord, Hash, Default)]
pub struct Neither(Rc<i32>);
impl<'de> serde::Deserialize<'de> for Neither { fn deserialize<D: serde::Deserializer<'de>>(d: D) -> Result<Self, D::Error> { Ok(Neither(Rc::new(i32::deserialize(d)?))) } }

/// Copy variants (the by-reference impls require Copy): the marker decides the auto traits
#[derive(Clone, Copy, PartialEq, Eq, PartialOrd, Ord, Hash, Default)]
pub struct SendNotSyncC(i32, std::marker::PhantomData<std::cell::Cell<()>>);
#[derive(Clone, Copy, PartialEq, Eq, PartialOrd, Ord, Hash, Default)]
pub struct SyncNotSendC(i32, std::marker::PhantomData<std::sync::MutexGuard<'static, ()>>);
#[derive(Clone, Copy, PartialEq, Eq, PartialOrd, Ord, Hash, Default)]
pub struct NeitherC(i32, std::marker::PhantomData<Rc<()>>);

/// thread-safe control type
#[derive(Clone, Copy, PartialEq, Eq, PartialOrd, Ord, Hash, Default, serde::Deserialize)]
pub struct Fine(i32);
"#;

fn gen_c17() -> (String, Vec<Func>) {
    let mut fs: Vec<Func> = Vec::new();
    let mut id = 0;
    let mut add = |fs: &mut Vec<Func>, negative: bool, what: (&str, &str), body: String| {
        id += 1;
        let name = format!("{}_{:03}", if negative { "neg" } else { "pos" }, id);
        fs.push(Func { name, negative, what: (what.0.to_string(), what.1.to_string()), body, twin: None });
    };
    // map entry points: body template with K and V substituted; `kv()`/`vv()` construct values
    let map_entries: Vec<(&str, &str)> = vec![
        ("HashMap::insert", "let m: HashMap<K, V> = HashMap::new(); let g = m.guard(); m.insert(K::default(), V::default(), &g);"),
        ("HashMap::try_insert", "let m: HashMap<K, V> = HashMap::new(); let g = m.guard(); let _ = m.try_insert(K::default(), V::default(), &g);"),
        ("HashMap::compute_if_present", "let m: HashMap<K, V> = HashMap::new(); let g = m.guard(); m.compute_if_present(&K::default(), |_, _| Some(V::default()), &g);"),
        ("HashMap::clone", "let m: HashMap<K, V> = HashMap::new(); let c = m.clone();"),
        ("Extend<(K, V)> for &HashMap", "let m: HashMap<K, V> = HashMap::new(); <&HashMap<K, V> as Extend<(K, V)>>::extend(&mut &m, vec![(K::default(), V::default())]);"),
        ("FromIterator<(K, V)> for HashMap", "let m: HashMap<K, V> = vec![(K::default(), V::default())].into_iter().collect();"),
        ("Deserialize for HashMap", "needs_de::<HashMap<K, V>>();"),
        ("ParallelExtend<(K, V)> for &HashMap", "let m: HashMap<K, V> = HashMap::new(); (&m).par_extend(Vec::<(K, V)>::new().into_par_iter());"),
        ("ParallelExtend<(K, V)> for HashMap", "let mut m: HashMap<K, V> = HashMap::new(); m.par_extend(Vec::<(K, V)>::new().into_par_iter());"),
        ("FromParallelIterator<(K, V)> for HashMap", "let m = <HashMap<K, V> as rayon::iter::FromParallelIterator<(K, V)>>::from_par_iter(rayon::iter::empty::<(K, V)>());"),
        ("HashMapRef::insert", "let m: HashMap<K, V> = HashMap::new(); m.pin().insert(K::default(), V::default());"),
        ("HashMapRef::try_insert", "let m: HashMap<K, V> = HashMap::new(); let _ = m.pin().try_insert(K::default(), V::default());"),
        ("HashMapRef::compute_if_present", "let m: HashMap<K, V> = HashMap::new(); m.pin().compute_if_present(&K::default(), |_, _| Some(V::default()));"),
        ("ParallelExtend<(K, V)> for HashMapRef", "let m: HashMap<K, V> = HashMap::new(); m.pin().par_extend(Vec::<(K, V)>::new().into_par_iter());"),
    ];
    let copy_entries: Vec<(&str, &str)> = vec![
        ("Extend<(&K, &V)> for &HashMap", "let m: HashMap<K, V> = HashMap::new(); let src: Vec<(K, V)> = Vec::new(); <&HashMap<K, V> as Extend<(&K, &V)>>::extend(&mut &m, src.iter().map(|(k, v)| (k, v)));"),
        ("FromIterator<(&K, &V)> for HashMap", "let src: Vec<(K, V)> = Vec::new(); let m: HashMap<K, V> = src.iter().map(|(k, v)| (k, v)).collect();"),
        ("FromIterator<&(K, V)> for HashMap", "let src: Vec<(K, V)> = Vec::new(); let m: HashMap<K, V> = src.iter().collect();"),
    ];
    let set_entries: Vec<(&str, &str)> = vec![
        ("HashSet::insert", "let s: HashSet<K> = HashSet::new(); let g = s.guard(); s.insert(K::default(), &g);"),
        ("HashSet::clone", "let s: HashSet<K> = HashSet::new(); let c = s.clone();"),
        ("Extend<T> for &HashSet", "let s: HashSet<K> = HashSet::new(); <&HashSet<K> as Extend<K>>::extend(&mut &s, vec![K::default()]);"),
        ("FromIterator<T> for HashSet", "let s: HashSet<K> = vec![K::default()].into_iter().collect();"),
        ("Deserialize for HashSet", "needs_de::<HashSet<K>>();"),
        ("ParallelExtend<T> for &HashSet", "let s: HashSet<K> = HashSet::new(); (&s).par_extend(Vec::<K>::new().into_par_iter());"),
        ("ParallelExtend<T> for HashSet", "let mut s: HashSet<K> = HashSet::new(); s.par_extend(Vec::<K>::new().into_par_iter());"),
        ("FromParallelIterator<T> for HashSet", "let s = <HashSet<K> as rayon::iter::FromParallelIterator<K>>::from_par_iter(rayon::iter::empty::<K>());"),
        ("HashSetRef::insert", "let s: HashSet<K> = HashSet::new(); s.pin().insert(K::default());"),
        ("ParallelExtend<T> for HashSetRef", "let s: HashSet<K> = HashSet::new(); s.pin().par_extend(Vec::<K>::new().into_par_iter());"),
    ];
    let bad = ["Neither", "SendNotSync", "SyncNotSend"];
    let subst = |body: &str, k: &str, v: &str| body.replace("<K, V>", &format!("<{}, {}>", k, v)).replace("(K, V)", &format!("({}, {})", k, v)).replace("K::default()", &format!("{}::default()", k)).replace("V::default()", &format!("{}::default()", v)).replace("<K>", &format!("<{}>", k)).replace("<K>>", &format!("<{}>>", k)).replace("as Extend<K>", &format!("as Extend<{}>", k)).replace("as Extend<&K>", &format!("as Extend<&{}>", k)).replace("(&K, &V)", &format!("(&{}, &{})", k, v)).replace("FromParallelIterator<K>", &format!("FromParallelIterator<{}>", k));
    for (name, body) in &map_entries {
        add(&mut fs, false, (name, "thread-safe key and value"), subst(body, "Fine", "Fine"));
        for b in bad {
            add(&mut fs, true, (name, &format!("{} in key position", b)), subst(body, b, "Fine"));
            add(&mut fs, true, (name, &format!("{} in value position", b)), subst(body, "Fine", b));
        }
    }
    let bad_copy = ["NeitherC", "SendNotSyncC", "SyncNotSendC"];
    for (name, body) in &copy_entries {
        add(&mut fs, false, (name, "thread-safe Copy key and value"), subst(body, "Fine", "Fine"));
        for b in bad_copy {
            add(&mut fs, true, (name, &format!("{} (Copy) in key position", b)), subst(body, b, "Fine"));
            add(&mut fs, true, (name, &format!("{} (Copy) in value position", b)), subst(body, "Fine", b));
        }
    }
    let copy_set_entries: Vec<(&str, &str)> = vec![
        ("Extend<&T> for &HashSet", "let s: HashSet<K> = HashSet::new(); let src: Vec<K> = Vec::new(); <&HashSet<K> as Extend<&K>>::extend(&mut &s, src.iter());"),
        ("FromIterator<&T> for HashSet", "let src: Vec<K> = Vec::new(); let s: HashSet<K> = src.iter().collect();"),
    ];
    for (name, body) in &copy_set_entries {
        add(&mut fs, false, (name, "thread-safe Copy element"), subst(body, "Fine", "Fine"));
        for b in bad_copy {
            add(&mut fs, true, (name, &format!("{} (Copy) as element", b)), subst(body, b, "Fine"));
        }
    }
    for (name, body) in &set_entries {
        add(&mut fs, false, (name, "thread-safe element"), subst(body, "Fine", "Fine"));
        for b in bad {
            add(&mut fs, true, (name, &format!("{} as element", b)), subst(body, b, "Fine"));
        }
    }
    // lookups / iteration / len stay available for any key and value type
    for b in bad {
        add(
            &mut fs,
            false,
            ("lookup, iteration, len without Send/Sync", b),
            format!("let m: HashMap<{b}, {b}> = HashMap::new(); let g = m.guard(); use_it(m.len()); use_it(m.is_empty()); use_it(m.get(&{b}::default(), &g)); use_it(m.get_key_value(&{b}::default(), &g)); use_it(m.contains_key(&{b}::default(), &g)); use_it(m.iter(&g).count()); use_it(m.keys(&g).count()); use_it(m.values(&g).count()); let s: HashSet<{b}> = HashSet::new(); let gs = s.guard(); use_it(s.len()); use_it(s.contains(&{b}::default(), &gs)); use_it(s.get(&{b}::default(), &gs)); use_it(s.iter(&gs).count());"),
        );
    }
    // ... through every facade: pinned / with_guard reference wrappers, set wrappers, set relations,
    // equality and indexing (one program per facade so that a tightened bound is named precisely)
    for b in bad {
        let progs: Vec<(&str, String)> = vec![
            ("HashMapRef via pin(): len/is_empty/get/get_key_value/contains_key/iter/keys/values", format!("let m: HashMap<{b}, {b}> = HashMap::new(); let r = m.pin(); use_it(r.len()); use_it(r.is_empty()); use_it(r.get(&{b}::default())); use_it(r.get_key_value(&{b}::default())); use_it(r.contains_key(&{b}::default())); use_it(r.iter().count()); use_it(r.keys().count()); use_it(r.values().count()); use_it((&r).into_iter().count());")),
            ("HashMapRef via with_guard(): get/contains_key/iter", format!("let m: HashMap<{b}, {b}> = HashMap::new(); let g = m.guard(); let r = m.with_guard(&g); use_it(r.len()); use_it(r.get(&{b}::default())); use_it(r.get_key_value(&{b}::default())); use_it(r.contains_key(&{b}::default())); use_it(r.iter().count());")),
            ("HashSetRef via pin() / with_guard(): len/is_empty/contains/get/iter", format!("let s: HashSet<{b}> = HashSet::new(); let r = s.pin(); use_it(r.len()); use_it(r.is_empty()); use_it(r.contains(&{b}::default())); use_it(r.get(&{b}::default())); use_it(r.iter().count()); let g = s.guard(); let w = s.with_guard(&g); use_it(w.contains(&{b}::default())); use_it(w.get(&{b}::default()));")),
            ("set relations", format!("let s: HashSet<{b}> = HashSet::new(); let t: HashSet<{b}> = HashSet::new(); let (g, h) = (s.guard(), t.guard()); use_it(s.is_subset(&t, &g, &h)); use_it(s.is_superset(&t, &g, &h)); use_it(s.is_disjoint(&t, &g, &h)); use_it(s.pin().is_subset(&t.pin())); use_it(s.pin().is_disjoint(&t.pin()));")),
            ("equality of maps and sets", format!("let m: HashMap<{b}, {b}> = HashMap::new(); let n: HashMap<{b}, {b}> = HashMap::new(); use_it(m == n); use_it(m.pin() == n.pin()); let s: HashSet<{b}> = HashSet::new(); let t: HashSet<{b}> = HashSet::new(); use_it(s == t); use_it(s.pin() == t.pin());")),
            ("generic read-only helper with only the documented bounds", format!("fn look<K: Hash + Ord, V, S: std::hash::BuildHasher>(m: &flurry::HashMapRef<'_, K, V, S>, k: &K) -> bool {{ m.get(k).is_some() || m.contains_key(k) || m.get_key_value(k).is_some() || m.iter().count() > 0 }} let m: HashMap<{b}, {b}> = HashMap::new(); use_it(look(&m.pin(), &{b}::default()));")),
        ];
        for (what, body) in progs {
            add(&mut fs, false, (what, &format!("{} keys and values", b)), body);
        }
    }
    let mut src = String::from(PRELUDE_17);
    for f in &fs {
        src.push_str(&format!("pub fn {}() {{ {} }}\n", f.name, f.body));
    }
    (src, fs)
}

struct Diag {
    code: String,
    rendered: String,
    line: usize,
}

fn probe_dir(which: &str) -> PathBuf {
    crate::verif_dir().join("harness/target/typeprobe").join(which)
}

/// compile `src` as a library crate depending on /repo; returns the error diagnostics
fn compile(which: &str, src: &str) -> Result<Vec<Diag>, String> {
    let dir = probe_dir(which);
    std::fs::create_dir_all(dir.join("src")).map_err(|e| e.to_string())?;
    std::fs::create_dir_all(dir.join(".cargo")).map_err(|e| e.to_string())?;
    std::fs::write(
        dir.join("Cargo.toml"),
        format!("[package]\nname = \"typeprobe_{}\"\nversion = \"0.0.0\"\nedition = \"2021\"\npublish = false\n\n[dependencies]\nflurry = {{ path = \"/repo\", features = [\"serde\", \"rayon\"] }}\nseize = \"0.3.3\"\nserde = {{ version = \"1\", features = [\"derive\"] }}\nrayon = \"1\"\nserde_json = \"1\"\n\n[workspace]\n", which),
    )
    .map_err(|e| e.to_string())?;
    std::fs::write(dir.join(".cargo/config.toml"), "[build]\nrustflags = [\"--cfg\", \"flurry_verif\"]\n\n[net]\noffline = true\n").map_err(|e| e.to_string())?;
    let _ = std::fs::copy(crate::verif_dir().join("harness/Cargo.lock"), dir.join("Cargo.lock"));
    std::fs::write(dir.join("src/lib.rs"), src).map_err(|e| e.to_string())?;
    let out = Command::new("cargo")
        .current_dir(&dir)
        .env("CARGO_NET_OFFLINE", "true")
        .env("CARGO_TARGET_DIR", crate::verif_dir().join("harness/target/typeprobe/target"))
        .args(["check", "--lib", "--message-format=json", "--offline"])
        .output()
        .map_err(|e| format!("cannot run cargo: {}", e))?;
    let mut diags = Vec::new();
    let mut saw_target = false;
    for line in String::from_utf8_lossy(&out.stdout).lines() {
        let v: Value = match serde_json::from_str(line) {
            Ok(v) => v,
            Err(_) => continue,
        };
        if v["reason"] == "compiler-artifact" && v["target"]["name"].as_str().map_or(false, |n| n.starts_with("typeprobe_")) {
            saw_target = true;
        }
        if v["reason"] != "compiler-message" || !v["target"]["name"].as_str().map_or(false, |n| n.starts_with("typeprobe_")) {
            continue;
        }
        saw_target = true;
        let m = &v["message"];
        if m["level"] != "error" {
            continue;
        }
        let code = m["code"]["code"].as_str().unwrap_or("").to_string();
        let rendered = m["rendered"].as_str().unwrap_or("").to_string();
        let line = m["spans"].as_array().and_then(|s| s.iter().find(|sp| sp["is_primary"] == true && sp["file_name"].as_str().map_or(false, |f| f.ends_with("src/lib.rs")))).and_then(|sp| sp["line_start"].as_u64()).unwrap_or(0) as usize;
        if code.is_empty() && line == 0 {
            continue; // "aborting due to N previous errors"
        }
        diags.push(Diag { code, rendered, line });
    }
    if !saw_target && !out.status.success() {
        return Err(format!("cargo check did not reach the probe crate: {}", String::from_utf8_lossy(&out.stderr).lines().rev().take(8).collect::<Vec<_>>().join(" | ")));
    }
    Ok(diags)
}

const BORROW_CODES: [&str; 10] = ["E0499", "E0502", "E0503", "E0505", "E0506", "E0515", "E0521", "E0597", "E0713", "E0716"];

fn judge(prop: &str, which: &str, src: &str, fs: &[Func], out: &mut ShardOut, accept: &dyn Fn(&Diag) -> bool, what_kind: &str) -> Result<(), String> {
    let diags = compile(which, src)?;
    // line -> function (one function per line after the prelude)
    let prelude_lines = src.lines().position(|l| l.starts_with("pub fn neg_") || l.starts_with("pub fn pos_")).unwrap_or(0);
    let mut by_fn: BTreeMap<usize, Vec<&Diag>> = BTreeMap::new();
    for d in &diags {
        if d.line <= prelude_lines {
            return Err(format!("the probe crate's prelude does not compile (harness fault): {}", d.rendered.lines().next().unwrap_or("")));
        }
        by_fn.entry(d.line - prelude_lines - 1).or_default().push(d);
    }
    let mut rejected = 0u64;
    let mut accepted = 0u64;
    for (i, f) in fs.iter().enumerate() {
        out.evaluations += 1;
        let ds = by_fn.get(&i).cloned().unwrap_or_default();
        let replay = serde_json::json!({"sub": which, "case": {"function": f.name, "entry_point": f.what.0, "variant": f.what.1, "body": f.body}});
        if f.negative {
            if ds.is_empty() {
                out.violations.push(Viol { prop: prop.into(), msg: format!("[{}] the compiler accepts a program that must be rejected: {} - {}: fn() {{ {} }}", prop, f.what.0, f.what.1, f.body), replay });
                continue;
            }
            if !ds.iter().any(|d| accept(d)) {
                out.violations.push(Viol { prop: prop.into(), msg: format!("[{}] {} - {}: rejected, but not with a {} diagnostic: {}", prop, f.what.0, f.what.1, what_kind, ds[0].rendered.lines().next().unwrap_or("")), replay });
                continue;
            }
            rejected += 1;
            let twin_ok = match &f.twin {
                Some(t) => fs.iter().position(|g| &g.name == t).map_or(false, |j| !by_fn.contains_key(&j)),
                None => true,
            };
            if twin_ok {
                out.nontrivial.insert(hash_str(&format!("{}/{}", f.what.0, f.what.1)));
                if out.samples.len() < 4 {
                    out.samples.push(serde_json::json!({"sub": which, "negative": {"entry_point": f.what.0, "variant": f.what.1, "body": f.body, "diagnostic": ds[0].code}}));
                }
            }
        } else {
            if let Some(d) = ds.first() {
                out.violations.push(Viol { prop: prop.into(), msg: format!("[{}] a program that must compile is rejected: {} - {}: {}", prop, f.what.0, f.what.1, d.rendered.lines().next().unwrap_or("")), replay });
                continue;
            }
            accepted += 1;
        }
    }
    out.class("negative_programs_rejected_as_required", rejected);
    out.class("positive_programs_accepted", accepted);
    Ok(())
}

fn c16_shard(ctx: &Ctx, out: &mut ShardOut) {
    ctx.mark_inflight("c16", "{}");
    let (src, fs) = gen_c16();
    let accept = |d: &Diag| BORROW_CODES.contains(&d.code.as_str());
    if let Err(e) = judge("C16", "c16", &src, &fs, out, &accept, "borrow / lifetime") {
        out.notes.push(format!("INCONCLUSIVE {}", e));
        out.evaluations = 0;
    }
    out.exhaustive_parts.push("registry of borrow-returning entry points x misuse kinds (drop guard, refresh guard, drop map, move map, escape guard scope, escape map scope, drop wrapper)".into());
}
fn c17_shard(ctx: &Ctx, out: &mut ShardOut) {
    ctx.mark_inflight("c17", "{}");
    let (src, fs) = gen_c17();
    let accept = |d: &Diag| (d.code == "E0277" || d.code == "E0599") && (d.rendered.contains("Send") || d.rendered.contains("Sync"));
    if let Err(e) = judge("C17", "c17", &src, &fs, out, &accept, "Send/Sync") {
        out.notes.push(format!("INCONCLUSIVE {}", e));
        out.evaluations = 0;
    }
    out.exhaustive_parts.push("registry of inserting entry points x {neither, Send+!Sync, !Send+Sync} x {key, value} position".into());
}

/// replay = compile just that function (plus the prelude)
fn replay_one(prop: &str, which: &str, case: &Value) -> Result<(), CaseFail> {
    let (src_all, fs) = if which == "c16" { gen_c16() } else { gen_c17() };
    let name = case["function"].as_str().unwrap_or("");
    let f = match fs.iter().find(|f| f.name == name) {
        Some(f) => f,
        None => return Err(CaseFail { prop: prop.into(), msg: format!("replay file names unknown function {:?}", name) }),
    };
    let prelude: String = src_all.lines().take_while(|l| !(l.starts_with("pub fn neg_") || l.starts_with("pub fn pos_"))).map(|l| format!("{}\n", l)).collect();
    let src = format!("{}pub fn {}() {{ {} }}\n", prelude, f.name, f.body);
    let one = vec![Func { name: f.name.clone(), negative: f.negative, what: f.what.clone(), body: f.body.clone(), twin: None }];
    let mut out = ShardOut::default();
    let r = if which == "c16" {
        judge(prop, which, &src, &one, &mut out, &|d: &Diag| BORROW_CODES.contains(&d.code.as_str()), "borrow / lifetime")
    } else {
        judge(prop, which, &src, &one, &mut out, &|d: &Diag| (d.code == "E0277" || d.code == "E0599") && (d.rendered.contains("Send") || d.rendered.contains("Sync")), "Send/Sync")
    };
    match r {
        Err(e) => {
            println!("INCONCLUSIVE: {}", e);
            std::process::exit(2)
        }
        Ok(()) => match out.violations.first() {
            Some(v) => Err(CaseFail { prop: prop.into(), msg: v.msg.clone() }),
            None => Ok(()),
        },
    }
}

pub fn defs() -> Vec<PropDef> {
    vec![
        PropDef {
            id: "C16",
            level: "exploration",
            rule: "programs generated from the registry of borrow-returning entry points (HashMap 15 incl. iterator items, HashSet 5, HashMapRef 12 and HashSetRef 4 through both pin() and with_guard(), the guard()/pin() handles) x misuse kinds (use after drop(guard), after guard.refresh(), after drop(map), after moving the map, result escaping the guard's scope / the map's scope / the wrapper's scope); each negative has a positive twin that only moves the use before the drop; 'drop the map' programs take a guard that does not borrow the map, so only the result's type ties it to the map; plus positives for items outliving the iterator and for non-'static keys, values and lookup keys; oracle = rustc diagnostics through cargo check: a negative needs an error with a borrow/lifetime code (E0499 E0502 E0503 E0505 E0506 E0515 E0521 E0597 E0713 E0716) on its own line, a positive none; evaluations = functions compiled; non-trivial = negatives rejected whose positive twin compiled; distinct by (entry point, misuse)",
            assumptions: &["the registry lists the borrow-returning public entry points at the pinned commit", "rustc's borrow checker is the oracle"],
            run_shard: c16_shard,
            replay: |sub, case| replay_one("C16", if sub.is_empty() { "c16" } else { sub }, case),
            shards: |_| 1,
            watchdog: |_| 1200,
        },
        PropDef {
            id: "C17",
            level: "exploration",
            rule: "programs generated from the registry of inserting entry points (HashMap: insert, try_insert, compute_if_present, clone, Extend, FromIterator, Deserialize, three ParallelExtend impls, FromParallelIterator, the HashMapRef methods; HashSet likewise) instantiated with a type that is neither Send nor Sync, Send+!Sync, or !Send+Sync (all other bounds satisfied) in key and, separately, value position; positives: the same programs with a thread-safe type, the by-reference (Copy) impls, and lookup / iteration / len on maps of non-thread-safe types; oracle = rustc through cargo check: negatives need E0277/E0599 on their line whose text names Send or Sync, positives must be clean; evaluations = functions compiled; non-trivial = negatives rejected as required; distinct by (entry point, type, position)",
            assumptions: &["the registry lists the inserting public entry points at the pinned commit", "rustc's trait solver is the oracle"],
            run_shard: c17_shard,
            replay: |sub, case| replay_one("C17", if sub.is_empty() { "c17" } else { sub }, case),
            shards: |_| 1,
            watchdog: |_| 1200,
        },
    ]
}
