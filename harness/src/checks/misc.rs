//! C18 (panic injection at every callback index) and C09 (foreign guards over the entry-point registry).
use crate::inspect;
use crate::model::*;
use crate::runner::*;
use crate::seq::{run_fault_case, FMap, FSet, FaultCase, FaultOp};
use crate::types::*;
use crate::PropDef;
use proptest::prelude::*;
use serde::{Deserialize, Serialize};
use serde_json::Value;
use std::panic::{catch_unwind, AssertUnwindSafe};

/* ------------------------------------ C18 ------------------------------------ */

fn fault_case_strategy() -> impl Strategy<Value = FaultCase> {
    let cfg = (hmode_strategy(), capacity_strategy(), facade_strategy(), batch_strategy(), prop_oneof![Just(8u16), Just(16u16), Just(32u16), Just(64u16)], prop_oneof![Just(KeyMap::Dense), Just(KeyMap::Mixed)])
        .prop_map(|(hmode, capacity, facade, batch, universe, keymap)| Cfg { hmode, capacity, facade, batch, universe, keymap, set: false });
    cfg.prop_flat_map(|cfg| {
        let u = cfg.universe;
        let op = prop_oneof![
            10 => (0..u).prop_map(Op::Insert),
            4 => (0..u).prop_map(Op::Remove),
            2 => (0..u).prop_map(|k| Op::Compute(k, Act::Inc)),
            4 => (0..u, 1u16..30).prop_map(|(a, n)| Op::Fill(a, n)),
            1 => (0..u, 1u16..10).prop_map(|(a, n)| Op::Drain(a, n)),
            1 => (0u16..200).prop_map(Op::Reserve),
        ];
        let fault = prop_oneof![
            4 => (0..u, prop_oneof![Just(Act::Inc), Just(Act::Set), Just(Act::Remove)]).prop_map(|(k, a)| FaultOp::Compute(k, a)),
            3 => pred_strategy().prop_map(FaultOp::Retain),
            3 => pred_strategy().prop_map(FaultOp::RetainForce),
            1 => (0u8..3).prop_map(FaultOp::IterLoop),
        ];
        (proptest::collection::vec(op.clone(), 0..25), fault, proptest::collection::vec(op, 0..6)).prop_map(move |(prefix, fault, tail)| FaultCase { cfg: cfg.clone(), prefix, fault, tail, only: None })
    })
}

fn c18_shard(ctx: &Ctx, out: &mut ShardOut) {
    let n = ctx.share(ctx.by_tier(8000, 100_000)) as u32;
    drive_n(ctx, "fault", ctx.shard_seed(1), n, 600, fault_case_strategy(), out, |c| match run_fault_case(c) {
        Ok(st) => Ok(CaseInfo {
            nontrivial: st.in_critical_section > 0 || st.after_removals > 0,
            classes: vec![
                ("fault_runs", st.runs),
                ("panics_fired", st.fired),
                ("panics_inside_a_bin_critical_section", st.in_critical_section),
                ("panics_after_completed_removals", st.after_removals),
                ("panics_with_tree_bins_involved", st.tree),
            ],
            evaluations: st.runs,
            sub_hashes: vec![],
        }),
        Err((at, f)) => Err(CaseFail { prop: "C18".into(), msg: format!("[{}] fault index {}, step {}: {}", f.prop, at, f.step, f.msg) }),
    });
    out.exhaustive_parts.push("for each generated case: every callback index of the fault-free run".into());
    // callbacks that panic while other threads write, resize and convert bins
    super::concchecks::c18_conc_run(ctx, out);
}

fn c18_replay(sub: &str, case: &Value) -> Result<(), CaseFail> {
    if sub == "panic-conc" {
        return super::concchecks::c18_conc_replay(case);
    }
    let c: FaultCase = serde_json::from_value(case.clone()).map_err(|e| CaseFail { prop: "C18".into(), msg: format!("bad replay file: {}", e) })?;
    run_fault_case(&c).map(|_| ()).map_err(|(at, f)| CaseFail { prop: "C18".into(), msg: format!("[{}] fault index {}, step {}: {}", f.prop, at, f.step, f.msg) })
}

/* ------------------------------------ C09 ------------------------------------ */

#[derive(Clone, Copy, Debug, PartialEq, Eq, Serialize, Deserialize)]
pub enum StateKind {
    /// capacity 0, never touched: no table
    Unallocated,
    /// table allocated, no entries
    EmptyTable,
    /// a few entries in list bins
    Small,
    /// one tree bin of 12 colliding keys (+ a few others)
    Tree,
    /// ~100 entries
    Mid,
}
const STATES: [StateKind; 5] = [StateKind::Unallocated, StateKind::EmptyTable, StateKind::Small, StateKind::Tree, StateKind::Mid];

#[derive(Clone, Debug, Serialize, Deserialize)]
pub struct GuardCase {
    pub entry: String,
    pub state: StateKind,
    /// key argument: index into the state's keys (present) or beyond (absent)
    pub arg: u16,
}

fn tags_of(state: StateKind) -> (HMode, u32, Vec<u32>) {
    match state {
        StateKind::Unallocated => (HMode::Identity, 0, vec![]),
        StateKind::EmptyTable => (HMode::Identity, 16, vec![]),
        StateKind::Small => (HMode::Identity, 0, vec![1, 2, 3, 17, 33]),
        StateKind::Tree => (HMode::SameBin, 64, (0..12).chain(100..103).collect()),
        StateKind::Mid => (HMode::Mix, 0, (0..100).collect()),
    }
}

fn build_state(state: StateKind) -> Box<FMap> {
    let (hm, cap, tags) = tags_of(state);
    let m = Box::new(FMap::with_capacity_and_hasher(cap as usize, HB(hm)));
    let g = m.guard();
    for t in tags {
        m.insert(K::new(t), V::new(t as u64), &g);
    }
    drop(g);
    m
}
fn build_set_state(state: StateKind) -> Box<FSet> {
    let (hm, cap, tags) = tags_of(state);
    let s = Box::new(FSet::with_capacity_and_hasher(cap as usize, HB(hm)));
    let g = s.guard();
    for t in tags {
        s.insert(K::new(t), &g);
    }
    drop(g);
    s
}

type MapEntry = fn(&FMap, &seize::Guard<'_>, u32);
type SetEntry = fn(&FSet, &FSet, &seize::Guard<'_>, &seize::Guard<'_>, u32);

fn map_entries() -> Vec<(&'static str, MapEntry)> {
    fn sink<T>(_: T) {}
    vec![
        ("HashMap::iter", |m, g, _| sink(m.iter(g).count())),
        ("HashMap::keys", |m, g, _| sink(m.keys(g).count())),
        ("HashMap::values", |m, g, _| sink(m.values(g).count())),
        ("HashMap::reserve", |m, g, a| m.reserve(a as usize + 40, g)),
        ("HashMap::contains_key", |m, g, a| sink(m.contains_key(&K::probe(a), g))),
        ("HashMap::get", |m, g, a| sink(m.get(&K::probe(a), g).map(|v| v.id))),
        ("HashMap::get_key_value", |m, g, a| sink(m.get_key_value(&K::probe(a), g).map(|v| v.1.id))),
        ("HashMap::clear", |m, g, _| m.clear(g)),
        ("HashMap::insert", |m, g, a| sink(m.insert(K::new(a), V::new(1), g).map(|v| v.id))),
        ("HashMap::try_insert", |m, g, a| sink(m.try_insert(K::new(a), V::new(1), g).map(|v| v.id).map_err(|e| e.current.id))),
        ("HashMap::compute_if_present", |m, g, a| sink(m.compute_if_present(&K::probe(a), |_, v| Some(V::new(v.payload + 1)), g).map(|v| v.id))),
        ("HashMap::compute_if_present(remove)", |m, g, a| sink(m.compute_if_present(&K::probe(a), |_, _| None, g).map(|v| v.id))),
        ("HashMap::remove", |m, g, a| sink(m.remove(&K::probe(a), g).map(|v| v.id))),
        ("HashMap::remove_entry", |m, g, a| sink(m.remove_entry(&K::probe(a), g).map(|v| v.1.id))),
        ("HashMap::retain", |m, g, _| m.retain(|k, _| k.tag % 2 == 0, g)),
        ("HashMap::retain_force", |m, g, _| m.retain_force(|k, _| k.tag % 2 == 0, g)),
        // through the with_guard wrapper (constructing it uses nothing)
        ("HashMapRef::iter", |m, g, _| sink(m.with_guard(g).iter().count())),
        ("HashMapRef::keys", |m, g, _| sink(m.with_guard(g).keys().count())),
        ("HashMapRef::values", |m, g, _| sink(m.with_guard(g).values().count())),
        ("HashMapRef::reserve", |m, g, a| m.with_guard(g).reserve(a as usize + 40)),
        ("HashMapRef::contains_key", |m, g, a| sink(m.with_guard(g).contains_key(&K::probe(a)))),
        ("HashMapRef::get", |m, g, a| sink(m.with_guard(g).get(&K::probe(a)).map(|v| v.id))),
        ("HashMapRef::get_key_value", |m, g, a| sink(m.with_guard(g).get_key_value(&K::probe(a)).map(|v| v.1.id))),
        ("HashMapRef::clear", |m, g, _| m.with_guard(g).clear()),
        ("HashMapRef::insert", |m, g, a| sink(m.with_guard(g).insert(K::new(a), V::new(1)).map(|v| v.id))),
        ("HashMapRef::try_insert", |m, g, a| sink(m.with_guard(g).try_insert(K::new(a), V::new(1)).map(|v| v.id).map_err(|e| e.current.id))),
        ("HashMapRef::compute_if_present", |m, g, a| sink(m.with_guard(g).compute_if_present(&K::probe(a), |_, v| Some(V::new(v.payload + 1))).map(|v| v.id))),
        ("HashMapRef::remove", |m, g, a| sink(m.with_guard(g).remove(&K::probe(a)).map(|v| v.id))),
        ("HashMapRef::remove_entry", |m, g, a| sink(m.with_guard(g).remove_entry(&K::probe(a)).map(|v| v.1.id))),
        ("HashMapRef::retain", |m, g, _| m.with_guard(g).retain(|k, _| k.tag % 2 == 0)),
        ("HashMapRef::retain_force", |m, g, _| m.with_guard(g).retain_force(|k, _| k.tag % 2 == 0)),
        ("HashMapRef::index", |m, g, a| {
            let r = m.with_guard(g);
            // Index panics on a missing key by contract: swallow that; use of the guard is judged by the event oracle
            let _ = catch_unwind(AssertUnwindSafe(|| sink(r[&K::probe(a)].id)));
        }),
        ("HashMapRef::into_iter", |m, g, _| {
            let r = m.with_guard(g);
            sink((&r).into_iter().count())
        }),
        ("HashMapRef::fmt", |m, g, _| sink(format!("{:?}", m.with_guard(g)))),
        ("HashMapRef::serialize", |m, g, _| sink(serde_json::to_string(&m.with_guard(g)).ok())),
        // the other operand holds the same entries (equal lengths, so the comparison really looks
        // every key up in the right-hand operand) or nothing (early exit on the lengths)
        ("HashMapRef::eq(HashMapRef)", |m, g, a| {
            let o = twin_of(m, a % 2 == 0);
            let go = o.guard();
            sink(m.with_guard(g) == o.with_guard(&go));
            sink(o.with_guard(&go) == m.with_guard(g));
        }),
        ("HashMapRef::eq(HashMap)", |m, g, a| {
            let o = twin_of(m, a % 2 == 0);
            sink(m.with_guard(g) == o);
            sink(o == m.with_guard(g));
        }),
        ("HashMapRef::eq(pinned HashMapRef)", |m, g, a| {
            let o = twin_of(m, a % 2 == 0);
            sink(o.pin() == m.with_guard(g));
            sink(m.with_guard(g) == o.pin());
        }),
    ]
}

/// a map with its own collector holding the same entries as `m` (or none)
fn twin_of(m: &FMap, same: bool) -> FMap {
    let o = FMap::with_hasher(HB(HMode::Identity));
    if same {
        let (mg, go) = (m.guard(), o.guard());
        for (k, v) in m.iter(&mg) {
            o.insert(K::new(k.tag), V::new(v.payload), &go);
        }
    }
    o
}
fn set_twin_of(s: &FSet) -> FSet {
    let o = FSet::with_hasher(HB(HMode::Identity));
    let (sg, go) = (s.guard(), o.guard());
    for k in s.iter(&sg) {
        o.insert(K::new(k.tag), &go);
    }
    drop((sg, go));
    o
}

fn set_entries() -> Vec<(&'static str, SetEntry)> {
    fn sink<T>(_: T) {}
    vec![
        ("HashSet::iter", |s, _, g, _, _| sink(s.iter(g).count())),
        ("HashSet::contains", |s, _, g, _, a| sink(s.contains(&K::probe(a), g))),
        ("HashSet::get", |s, _, g, _, a| sink(s.get(&K::probe(a), g).map(|k| k.tag))),
        ("HashSet::insert", |s, _, g, _, a| sink(s.insert(K::new(a), g))),
        ("HashSet::remove", |s, _, g, _, a| sink(s.remove(&K::probe(a), g))),
        ("HashSet::take", |s, _, g, _, a| sink(s.take(&K::probe(a), g).map(|k| k.tag))),
        ("HashSet::retain", |s, _, g, _, _| s.retain(|k| k.tag % 2 == 0, g)),
        ("HashSet::clear", |s, _, g, _, _| s.clear(g)),
        ("HashSet::reserve", |s, _, g, _, a| s.reserve(a as usize + 40, g)),
        // relations: our guard foreign
        ("HashSet::is_disjoint(our)", |s, o, g, go, _| sink(s.is_disjoint(o, g, go))),
        ("HashSet::is_subset(our)", |s, o, g, go, _| sink(s.is_subset(o, g, go))),
        ("HashSet::is_superset(our)", |s, o, g, go, _| sink(s.is_superset(o, g, go))),
        // relations: their guard foreign (the set under test is `other` here)
        ("HashSet::is_disjoint(their)", |s, o, g, go, _| sink(o.is_disjoint(s, go, g))),
        ("HashSet::is_subset(their)", |s, o, g, go, _| sink(o.is_subset(s, go, g))),
        ("HashSet::is_superset(their)", |s, o, g, go, _| sink(o.is_superset(s, go, g))),
        ("HashSetRef::iter", |s, _, g, _, _| sink(s.with_guard(g).iter().count())),
        ("HashSetRef::contains", |s, _, g, _, a| sink(s.with_guard(g).contains(&K::probe(a)))),
        ("HashSetRef::get", |s, _, g, _, a| sink(s.with_guard(g).get(&K::probe(a)).map(|k| k.tag))),
        ("HashSetRef::insert", |s, _, g, _, a| sink(s.with_guard(g).insert(K::new(a)))),
        ("HashSetRef::remove", |s, _, g, _, a| sink(s.with_guard(g).remove(&K::probe(a)))),
        ("HashSetRef::take", |s, _, g, _, a| sink(s.with_guard(g).take(&K::probe(a)).map(|k| k.tag))),
        ("HashSetRef::retain", |s, _, g, _, _| s.with_guard(g).retain(|k| k.tag % 2 == 0)),
        ("HashSetRef::clear", |s, _, g, _, _| s.with_guard(g).clear()),
        ("HashSetRef::reserve", |s, _, g, _, a| s.with_guard(g).reserve(a as usize + 40)),
        ("HashSetRef::into_iter", |s, _, g, _, _| {
            let r = s.with_guard(g);
            sink((&r).into_iter().count())
        }),
        ("HashSetRef::fmt", |s, _, g, _, _| sink(format!("{:?}", s.with_guard(g)))),
        ("HashSetRef::serialize", |s, _, g, _, _| sink(serde_json::to_string(&s.with_guard(g)).ok())),
        ("HashSetRef::eq", |s, o, g, go, _| {
            sink(s.with_guard(g) == o.with_guard(go));
            sink(o.with_guard(go) == s.with_guard(g));
            sink(s.with_guard(g) == *o);
            sink(*o == s.with_guard(g));
        }),
        ("HashSetRef::eq(equal set)", |s, _, g, _, _| {
            let t = set_twin_of(s);
            let gt = t.guard();
            sink(s.with_guard(g) == t.with_guard(&gt));
            sink(t.with_guard(&gt) == s.with_guard(g));
            sink(s.with_guard(g) == t);
            sink(t == s.with_guard(g));
            sink(t.pin() == s.with_guard(g));
        }),
        ("HashSetRef::is_disjoint(our)", |s, o, g, go, _| sink(s.with_guard(g).is_disjoint(&o.with_guard(go)))),
        ("HashSetRef::is_subset(our)", |s, o, g, go, _| sink(s.with_guard(g).is_subset(&o.with_guard(go)))),
        ("HashSetRef::is_superset(our)", |s, o, g, go, _| sink(s.with_guard(g).is_superset(&o.with_guard(go)))),
        ("HashSetRef::is_disjoint(their)", |s, o, g, go, _| sink(o.with_guard(go).is_disjoint(&s.with_guard(g)))),
        ("HashSetRef::is_subset(their)", |s, o, g, go, _| sink(o.with_guard(go).is_subset(&s.with_guard(g)))),
        ("HashSetRef::is_superset(their)", |s, o, g, go, _| sink(o.with_guard(go).is_superset(&s.with_guard(g)))),
    ]
}

/// guard uses observed through the `event` hook while `f` runs: (loads+retires with collector `c`, total uses)
fn watch_guard_uses<R>(c: usize, f: impl FnOnce() -> R) -> (R, u64, u64) {
    use std::cell::Cell;
    use std::rc::Rc;
    let hits = Rc::new(Cell::new(0u64));
    let total = Rc::new(Cell::new(0u64));
    let (h2, t2) = (hits.clone(), total.clone());
    crate::sched::PLAIN_EVENT.with(|p| {
        *p.borrow_mut() = Some(Box::new(move |kind, a, b| {
            let coll = match kind {
                flurry::verif::EV_GUARD_LOAD => a,
                flurry::verif::EV_RETIRE => b,
                _ => return,
            };
            t2.set(t2.get() + 1);
            if coll == c {
                h2.set(h2.get() + 1);
            }
        }))
    });
    let r = f();
    crate::sched::PLAIN_EVENT.with(|p| *p.borrow_mut() = None);
    (r, hits.get(), total.get())
}

fn arg_tag(state: StateKind, arg: u16) -> u32 {
    let (_, _, tags) = tags_of(state);
    if tags.is_empty() || arg as usize >= tags.len() * 2 {
        900_000 + arg as u32
    } else if (arg as usize) < tags.len() {
        tags[arg as usize]
    } else {
        // absent key that falls into the same region
        tags[arg as usize - tags.len()] + 7_000
    }
}

/// run `f` from a destructor while this thread is unwinding from an unrelated panic; returns
/// whether `f` itself panicked (its panic is caught inside the destructor)
fn during_unwind<F: FnOnce()>(f: F) -> bool {
    struct D<F: FnOnce()>(Option<F>, std::rc::Rc<std::cell::Cell<bool>>);
    impl<F: FnOnce()> Drop for D<F> {
        fn drop(&mut self) {
            if let Some(f) = self.0.take() {
                let r = catch_unwind(AssertUnwindSafe(f));
                self.1.set(r.is_err());
            }
        }
    }
    let inner = std::rc::Rc::new(std::cell::Cell::new(false));
    let i2 = inner.clone();
    let _ = catch_unwind(AssertUnwindSafe(move || {
        let _d = D(Some(f), i2);
        std::panic::panic_any("unrelated panic");
    }));
    inner.get()
}

pub struct GuardOutcome {
    pub control_used_guard: bool,
    pub panicked: bool,
}

pub fn run_guard_case(c: &GuardCase) -> Result<GuardOutcome, String> {
    crate::sched::install_hooks();
    ledger_reset();
    let foreign_owner = FMap::with_hasher(HB(HMode::Identity));
    let foreign_coll = unsafe { foreign_owner.verif_dump() }.collector;
    let a = arg_tag(c.state, c.arg);
    let snapshot = |d: &flurry::verif::Dump<'_, K, V>| inspect::contents(d, |v: &V| v.id).map(|m| m.into_iter().map(|(t, e)| (t, e.1)).collect::<Vec<_>>());
    if let Some((_, f)) = map_entries().into_iter().find(|(n, _)| *n == c.entry) {
        // control: the proper guard
        let m = build_state(c.state);
        let own = unsafe { m.verif_dump() }.collector;
        let g = m.guard();
        let (r, used, _) = watch_guard_uses(own, || catch_unwind(AssertUnwindSafe(|| f(&m, &g, a))));
        drop(g);
        if r.is_err() {
            return Err(format!("{} panicked with the map's own guard (state {:?}, key {})", c.entry, c.state, a));
        }
        // the foreign guard
        let m = build_state(c.state);
        let before = snapshot(&unsafe { m.verif_dump() })?;
        let fg = foreign_owner.guard();
        let (r, foreign_uses, _) = watch_guard_uses(foreign_coll, || catch_unwind(AssertUnwindSafe(|| f(&m, &fg, a))));
        drop(fg);
        if foreign_uses > 0 {
            return Err(format!("{} used a guard of a foreign collector for {} guarded load(s)/retirement(s) of the map (state {:?}, key {}); it {}", c.entry, foreign_uses, c.state, a, if r.is_err() { "panicked only afterwards" } else { "returned normally" }));
        }
        let d = unsafe { m.verif_dump() };
        if r.is_err() {
            let after = snapshot(&d)?;
            if after != before {
                return Err(format!("{} panicked on the foreign guard but changed the map: {:?} -> {:?}", c.entry, before, after));
            }
        }
        inspect::check_quiescent(&d, tags_of(c.state).0).map_err(|e| format!("after {} with a foreign guard: {}", c.entry, e))?;
        // the same call issued from a destructor that runs while the thread unwinds from an
        // unrelated panic: the rejection must not depend on the calling context
        {
            let m2 = build_state(c.state);
            let before2 = snapshot(&unsafe { m2.verif_dump() })?;
            let fg = foreign_owner.guard();
            let (inner_panicked, foreign_uses, _) = watch_guard_uses(foreign_coll, || during_unwind(|| f(&m2, &fg, a)));
            drop(fg);
            if foreign_uses > 0 {
                return Err(format!("{} called from a destructor during unwinding used a guard of a foreign collector for {} guarded load(s)/retirement(s) of the map (state {:?}, key {}); it {}", c.entry, foreign_uses, c.state, a, if inner_panicked { "panicked only afterwards" } else { "returned normally" }));
            }
            let d2 = unsafe { m2.verif_dump() };
            if inner_panicked && snapshot(&d2)? != before2 {
                return Err(format!("{} (called during unwinding) panicked on the foreign guard but changed the map", c.entry));
            }
        }
        // still usable
        let g = m.guard();
        m.insert(K::new(123_456), V::new(9), &g);
        if m.get(&K::probe(123_456), &g).map(|v| v.payload) != Some(9) {
            return Err(format!("the map is unusable after {} was called with a foreign guard", c.entry));
        }
        drop(g);
        return Ok(GuardOutcome { control_used_guard: used > 0, panicked: r.is_err() });
    }
    if let Some((_, f)) = set_entries().into_iter().find(|(n, _)| *n == c.entry) {
        let other_tags = [1u32, 2, 900_001];
        let mk_other = || {
            let o = Box::new(FSet::with_hasher(HB(tags_of(c.state).0)));
            let g = o.guard();
            for t in other_tags {
                o.insert(K::new(t), &g);
            }
            drop(g);
            o
        };
        let s = build_set_state(c.state);
        let o = mk_other();
        let own = unsafe { s.verif_dump() }.collector;
        let (g, go) = (s.guard(), o.guard());
        let (r, used, _) = watch_guard_uses(own, || catch_unwind(AssertUnwindSafe(|| f(&s, &o, &g, &go, a))));
        drop((g, go));
        if r.is_err() {
            return Err(format!("{} panicked with proper guards (state {:?}, key {})", c.entry, c.state, a));
        }
        let s = build_set_state(c.state);
        let o = mk_other();
        let before = inspect::contents(&unsafe { s.verif_dump() }, |_: &()| 0)?.len();
        let (fg, go) = (foreign_owner.guard(), o.guard());
        let (r, foreign_uses, _) = watch_guard_uses(foreign_coll, || catch_unwind(AssertUnwindSafe(|| f(&s, &o, &fg, &go, a))));
        drop((fg, go));
        if foreign_uses > 0 {
            return Err(format!("{} used a guard of a foreign collector for {} guarded load(s)/retirement(s) (state {:?}, key {}); it {}", c.entry, foreign_uses, c.state, a, if r.is_err() { "panicked only afterwards" } else { "returned normally" }));
        }
        let d = unsafe { s.verif_dump() };
        if r.is_err() && inspect::contents(&d, |_: &()| 0)?.len() != before {
            return Err(format!("{} panicked on the foreign guard but changed the set", c.entry));
        }
        inspect::check_quiescent(&d, tags_of(c.state).0).map_err(|e| format!("after {} with a foreign guard: {}", c.entry, e))?;
        {
            let s2 = build_set_state(c.state);
            let o2 = mk_other();
            let (fg, go) = (foreign_owner.guard(), o2.guard());
            let (inner_panicked, foreign_uses, _) = watch_guard_uses(foreign_coll, || during_unwind(|| f(&s2, &o2, &fg, &go, a)));
            drop((fg, go));
            if foreign_uses > 0 {
                return Err(format!("{} called from a destructor during unwinding used a guard of a foreign collector for {} guarded load(s)/retirement(s) (state {:?}, key {}); it {}", c.entry, foreign_uses, c.state, a, if inner_panicked { "panicked only afterwards" } else { "returned normally" }));
            }
        }
        return Ok(GuardOutcome { control_used_guard: used > 0, panicked: r.is_err() });
    }
    Err(format!("unknown entry point {:?}", c.entry))
}

/// guard-taking public functions found in the sources but missing from the registry
fn unregistered_entry_points() -> Vec<String> {
    let mut missing = Vec::new();
    let reg: Vec<String> = map_entries().iter().map(|e| e.0.to_string()).chain(set_entries().iter().map(|e| e.0.to_string())).collect();
    for (file, ty) in [("/repo/src/map.rs", "HashMap"), ("/repo/src/set.rs", "HashSet"), ("/repo/src/map_ref.rs", "HashMapRef"), ("/repo/src/set_ref.rs", "HashSetRef")] {
        let src = match std::fs::read_to_string(file) {
            Ok(s) => s,
            Err(_) => continue,
        };
        let mut rest = src.as_str();
        let is_ref = ty.ends_with("Ref");
        while let Some(i) = rest.find("pub fn ") {
            rest = &rest[i + 7..];
            let name: String = rest.chars().take_while(|c| c.is_alphanumeric() || *c == '_').collect();
            let sig_end = rest.find('{').unwrap_or(rest.len().min(400));
            let sig = &rest[..sig_end.min(rest.len())];
            let takes_guard = sig.contains("Guard<'_>") && (sig.contains("guard: &") || sig.contains("_guard: &"));
            let relevant = if is_ref { sig.contains("&self") && !["len", "is_empty", "pin", "with_guard"].contains(&name.as_str()) } else { takes_guard && name != "with_guard" };
            if relevant && !reg.iter().any(|r| r.starts_with(&format!("{}::{}", ty, name))) {
                missing.push(format!("{}::{}", ty, name));
            }
        }
    }
    missing.sort();
    missing.dedup();
    missing
}

fn c09_shard(ctx: &Ctx, out: &mut ShardOut) {
    let entries: Vec<String> = map_entries().iter().map(|e| e.0.to_string()).chain(set_entries().iter().map(|e| e.0.to_string())).collect();
    let args: &[u16] = if ctx.tier == Tier::Quick { &[0, 3, 400] } else { &[0, 1, 2, 3, 5, 11, 13, 20, 99, 150, 400] };
    let mut idx = 0usize;
    for e in &entries {
        for st in STATES {
            for a in args {
                idx += 1;
                if idx % ctx.nshards != ctx.shard {
                    continue;
                }
                let c = GuardCase { entry: e.clone(), state: st, arg: *a };
                let js = serde_json::to_string(&c).unwrap();
                ctx.mark_inflight("guard", &js);
                out.evaluations += 1;
                match run_guard_case(&c) {
                    Ok(o) => {
                        if o.control_used_guard {
                            out.nontrivial.insert(hash_str(&format!("{}/{:?}", e, st)));
                            out.class("cases_where_the_entry_point_uses_its_guard", 1);
                            if o.panicked {
                                out.class("foreign_guard_rejected_by_panic", 1);
                            } else {
                                out.class("foreign_guard_not_used_returned_normally", 1);
                            }
                            if *a == 3 && st == StateKind::Tree {
                                out.sample(serde_json::json!({"sub": "guard", "case": c}), 4);
                            }
                        } else {
                            out.class("cases_where_the_guard_is_not_needed", 1);
                        }
                    }
                    Err(m) => {
                        // keep going (one report per entry point) so that one broken entry point does not hide another
                        if !out.violations.iter().any(|v| v.replay["case"]["entry"] == serde_json::json!(c.entry)) {
                            out.violations.push(Viol { prop: "C09".into(), msg: format!("[C09] {}", m), replay: serde_json::json!({"sub": "guard", "case": c}) });
                        }
                    }
                }
            }
        }
    }
    let missing = unregistered_entry_points();
    if !missing.is_empty() {
        out.notes.push(format!("guard-taking public functions not in the registry (not exercised): {}", missing.join(", ")));
    }
    out.exhaustive_parts.push(format!("{} registered entry points x {} map states x {} key arguments", entries.len(), STATES.len(), args.len()));
}

fn c09_replay(_sub: &str, case: &Value) -> Result<(), CaseFail> {
    let c: GuardCase = serde_json::from_value(case.clone()).map_err(|e| CaseFail { prop: "C09".into(), msg: format!("bad replay file: {}", e) })?;
    run_guard_case(&c).map(|_| ()).map_err(|m| CaseFail { prop: "C09".into(), msg: format!("[C09] {}", m) })
}

pub fn defs() -> Vec<PropDef> {
    vec![
        PropDef {
            id: "C18",
            level: "fault_enumeration",
            rule: "proptest-generated (configuration, prefix, faulting operation, tail) cases; the faulting operation (compute_if_present with increment/set/remove, retain, retain_force, or a loop consuming iter/keys/values) is re-run from a fresh identical map once per callback index i = 0..(number of callbacks of the fault-free run), panicking inside the i-th callback; each run checks: the injected payload propagates, the map equals the model with exactly the callbacks completed before the panic applied (faulting entry unchanged), the inspector finds no bin lock held and every tree lock state 0, an insert into the affected bin from another OS thread and a remove from this thread complete with the expected results, and the tail operations agree with the model; evaluations = fault runs; non-trivial case = a panic fired inside a bin critical section (compute closure) or after at least one completed removal (retain); distinct = hash of the case",
            assumptions: &["the faulting operation is deterministic given the prefix, so run i sees the same callback sequence as the fault-free run"],
            run_shard: c18_shard,
            replay: c18_replay,
            shards: super::sixteen,
            watchdog: |t| if t == Tier::Quick { 1200 } else { 8 * 3600 },
        },
        PropDef {
            id: "C09",
            level: "exploration",
            rule: "enumeration of the registry of guard-taking entry points (HashMap, HashSet, and everything reachable through with_guard wrappers incl. Index, IntoIterator, Debug, Serialize, ==, set relations with either guard foreign) x map states (unallocated, empty table, list bins, tree bin, 100 entries) x key arguments (present / absent); each case runs once with the proper guard (control: does the entry point use its guard at all?) and once with a guard of another map's collector; oracle: the event hook must never see the foreign collector at a guarded load or at a retirement, a call that panicked must leave the contents unchanged, the structure well-formed and the map usable; evaluations = cases; non-trivial = (entry point, state) pairs in which the control run used the guard; distinct by (entry point, state)",
            assumptions: &["the registry lists every guard-taking public entry point at the pinned commit; a source scan reports unregistered ones in the evidence notes", "identity of a guard = address of the Collector it was created from, as reported by the hook"],
            run_shard: c09_shard,
            replay: c09_replay,
            shards: |_| 8,
            watchdog: |t| if t == Tier::Quick { 600 } else { 3600 },
        },
    ]
}
