//! E4(b): quarantine allocator.  When switched on, freed blocks are filled with 0xDE and parked
//! in a FIFO instead of being returned to the system allocator; a block found modified when it
//! leaves the quarantine (or at the end-of-case scan) is a write-after-free, a read-after-free
//! sees poison (a non-canonical pointer, a dead canary, a garbage discriminant).
use std::alloc::{GlobalAlloc, Layout, System};
use std::sync::atomic::{AtomicBool, AtomicU64, AtomicUsize, Ordering};

pub struct Quarantine;

const POISON: u8 = 0xDE;
const MAX_BLOCK: usize = 1 << 16;
const CAP_BYTES: usize = 24 << 20;
const RING: usize = 1 << 18;

static ON: AtomicBool = AtomicBool::new(false);
static LOCK: AtomicBool = AtomicBool::new(false);
static mut SLOTS: [(usize, usize, usize); RING] = [(0, 0, 0); RING]; // (ptr, size, align)
static mut HEAD: usize = 0; // next slot to write
static mut TAIL: usize = 0; // oldest slot
static BYTES: AtomicUsize = AtomicUsize::new(0);
pub static CORRUPTIONS: AtomicU64 = AtomicU64::new(0);
pub static FIRST_CORRUPT_SIZE: AtomicUsize = AtomicUsize::new(0);
pub static FIRST_CORRUPT_OFF: AtomicUsize = AtomicUsize::new(0);
pub static FREED_BLOCKS: AtomicU64 = AtomicU64::new(0);
pub static DOUBLE_FREES: AtomicU64 = AtomicU64::new(0);
pub static FIRST_DOUBLE_FREE_SIZE: AtomicUsize = AtomicUsize::new(0);

// open-addressing set of the addresses currently parked (0 = empty, 1 = tombstone)
const SET: usize = 1 << 20;
static mut PARKED: [usize; SET] = [0; SET];
static mut TOMBS: usize = 0;

fn slot_of(p: usize) -> usize {
    (p >> 4).wrapping_mul(0x9e37_79b9_7f4a_7c15) >> 44
}
unsafe fn set_contains(p: usize) -> bool {
    let mut i = slot_of(p) % SET;
    loop {
        let v = PARKED[i];
        if v == 0 {
            return false;
        }
        if v == p {
            return true;
        }
        i = (i + 1) % SET;
    }
}
unsafe fn set_insert(p: usize) {
    let mut i = slot_of(p) % SET;
    loop {
        let v = PARKED[i];
        if v == 0 || v == 1 {
            if v == 1 {
                TOMBS -= 1;
            }
            PARKED[i] = p;
            return;
        }
        i = (i + 1) % SET;
    }
}
unsafe fn set_remove(p: usize) {
    let mut i = slot_of(p) % SET;
    loop {
        let v = PARKED[i];
        if v == 0 {
            return;
        }
        if v == p {
            PARKED[i] = 1;
            TOMBS += 1;
            return;
        }
        i = (i + 1) % SET;
    }
}
unsafe fn set_maybe_rebuild() {
    // too many tombstones make probes long: rebuild from the ring
    if TOMBS > SET / 4 {
        for x in PARKED.iter_mut() {
            *x = 0;
        }
        TOMBS = 0;
        let mut i = TAIL;
        while i != HEAD {
            set_insert(SLOTS[i].0);
            i = (i + 1) % RING;
        }
    }
}

fn lock() {
    while LOCK
        .compare_exchange_weak(false, true, Ordering::Acquire, Ordering::Relaxed)
        .is_err()
    {
        std::hint::spin_loop();
    }
}
fn unlock() {
    LOCK.store(false, Ordering::Release);
}

unsafe fn verify(ptr: usize, size: usize) {
    let s = std::slice::from_raw_parts(ptr as *const u8, size);
    if let Some(off) = s.iter().position(|b| *b != POISON) {
        if CORRUPTIONS.fetch_add(1, Ordering::SeqCst) == 0 {
            FIRST_CORRUPT_SIZE.store(size, Ordering::SeqCst);
            FIRST_CORRUPT_OFF.store(off, Ordering::SeqCst);
        }
    }
}

unsafe fn evict_one() {
    let (p, s, a) = SLOTS[TAIL];
    TAIL = (TAIL + 1) % RING;
    set_remove(p);
    BYTES.fetch_sub(s, Ordering::Relaxed);
    verify(p, s);
    System.dealloc(p as *mut u8, Layout::from_size_align_unchecked(s, a));
}

unsafe impl GlobalAlloc for Quarantine {
    unsafe fn alloc(&self, l: Layout) -> *mut u8 {
        big_trap(l.size());
        System.alloc(l)
    }
    unsafe fn alloc_zeroed(&self, l: Layout) -> *mut u8 {
        big_trap(l.size());
        System.alloc_zeroed(l)
    }
    unsafe fn realloc(&self, p: *mut u8, l: Layout, n: usize) -> *mut u8 {
        big_trap(n);
        System.realloc(p, l, n)
    }
    unsafe fn dealloc(&self, p: *mut u8, l: Layout) {
        if !ON.load(Ordering::Relaxed) || l.size() == 0 || l.size() > MAX_BLOCK {
            return System.dealloc(p, l);
        }
        lock();
        if set_contains(p as usize) {
            // the block is already parked: a second free of the same allocation
            if DOUBLE_FREES.fetch_add(1, Ordering::SeqCst) == 0 {
                FIRST_DOUBLE_FREE_SIZE.store(l.size(), Ordering::SeqCst);
            }
            unlock();
            return;
        }
        unlock();
        std::ptr::write_bytes(p, POISON, l.size());
        FREED_BLOCKS.fetch_add(1, Ordering::Relaxed);
        lock();
        while BYTES.load(Ordering::Relaxed) + l.size() > CAP_BYTES || (HEAD + 1) % RING == TAIL {
            evict_one();
        }
        SLOTS[HEAD] = (p as usize, l.size(), l.align());
        HEAD = (HEAD + 1) % RING;
        set_insert(p as usize);
        set_maybe_rebuild();
        BYTES.fetch_add(l.size(), Ordering::Relaxed);
        unlock();
    }
}

/// capacity probes (C14): a child process that must not really allocate gigabytes arms this trap;
/// the first request of 1 GiB or more ends the process with an exit code that tells the parent how
/// much was asked for (77 = exactly 2^30 pointers, 78 = any other size)
pub static BIG_TRAP: std::sync::atomic::AtomicBool = std::sync::atomic::AtomicBool::new(false);
extern "C" {
    fn _exit(code: i32) -> !;
}
#[inline]
fn big_trap(size: usize) {
    if size >= (1 << 30) && BIG_TRAP.load(Ordering::Relaxed) {
        unsafe { _exit(if size == (1usize << 30) * std::mem::size_of::<usize>() { 77 } else { 78 }) }
    }
}

pub fn enable(on: bool) {
    ON.store(on, Ordering::SeqCst);
}

/// verify every parked block and release them all; returns the number of corrupted blocks seen
/// since the last call
pub fn drain_and_check() -> (u64, usize, usize) {
    lock();
    unsafe {
        while TAIL != HEAD {
            evict_one();
        }
    }
    unlock();
    let c = CORRUPTIONS.swap(0, Ordering::SeqCst);
    (
        c,
        FIRST_CORRUPT_SIZE.load(Ordering::SeqCst),
        FIRST_CORRUPT_OFF.load(Ordering::SeqCst),
    )
}

/// verify every parked block without releasing it
pub fn check_only() -> u64 {
    lock();
    unsafe {
        let mut i = TAIL;
        while i != HEAD {
            let (p, s, _) = SLOTS[i];
            verify(p, s);
            i = (i + 1) % RING;
        }
    }
    unlock();
    CORRUPTIONS.load(Ordering::SeqCst)
}

/// position in the quarantine ring; blocks freed afterwards can be verified with `check_since`
pub fn marker() -> usize {
    lock();
    let h = unsafe { HEAD };
    unlock();
    h
}

/// verify the blocks parked since `marker` (older ones are verified when they leave the quarantine)
pub fn check_since(marker: usize) -> u64 {
    lock();
    unsafe {
        let mut i = marker % RING;
        // blocks that already left the quarantine were verified on eviction: never look at their slots
        let live = (HEAD + RING - TAIL) % RING;
        let wanted = (HEAD + RING - i) % RING;
        if wanted > live {
            i = TAIL;
        }
        let mut n = 0;
        while i != HEAD && n < RING {
            let (p, s, _) = SLOTS[i];
            if p != 0 {
                verify(p, s);
            }
            i = (i + 1) % RING;
            n += 1;
        }
    }
    unlock();
    CORRUPTIONS.load(Ordering::SeqCst)
}

/// number of double frees seen since the last call (and the size of the first such block)
pub fn take_double_frees() -> (u64, usize) {
    (DOUBLE_FREES.swap(0, Ordering::SeqCst), FIRST_DOUBLE_FREE_SIZE.load(Ordering::SeqCst))
}

pub fn freed_blocks() -> u64 {
    FREED_BLOCKS.load(Ordering::Relaxed)
}
