//! Oracles over the read-only inspector output (`HashMap::verif_dump`).
use crate::types::{HMode, K};
use flurry::verif::{BinDump, Dump, NodeDump, TableDump};
use std::collections::{BTreeMap, HashMap as StdMap, HashSet as StdSet};

#[derive(Clone, Debug, Default, PartialEq, Eq)]
pub struct Shape {
    pub table_len: usize,
    pub nodes: usize,
    pub list_bins: usize,
    pub tree_bins: usize,
    pub max_list: usize,
    pub max_tree: usize,
    pub moved: usize,
    pub size_ctl: isize,
    /// bin index -> (is_tree, node count), non-empty bins only
    pub bins: BTreeMap<usize, (bool, usize)>,
    pub table_addr: usize,
}

pub fn shape<V>(d: &Dump<'_, K, V>) -> Shape {
    let mut s = Shape {
        size_ctl: d.size_ctl,
        ..Default::default()
    };
    if let Some(t) = &d.table {
        s.table_len = t.bins.len();
        s.table_addr = t.addr;
        for (i, b) in t.bins.iter().enumerate() {
            match b {
                BinDump::Empty | BinDump::Invalid { .. } => {}
                BinDump::Moved => s.moved += 1,
                BinDump::List { nodes, .. } => {
                    s.list_bins += 1;
                    s.nodes += nodes.len();
                    s.max_list = s.max_list.max(nodes.len());
                    s.bins.insert(i, (false, nodes.len()));
                }
                BinDump::Tree { nodes, .. } => {
                    s.tree_bins += 1;
                    s.nodes += nodes.len();
                    s.max_tree = s.max_tree.max(nodes.len());
                    s.bins.insert(i, (true, nodes.len()));
                }
            }
        }
    }
    s
}

/// contents as seen by the inspector: tag -> (origin, value id or address)
pub fn contents<V>(d: &Dump<'_, K, V>, vid: impl Fn(&V) -> u64) -> Result<BTreeMap<u32, (u32, u64)>, String> {
    let mut m = BTreeMap::new();
    if let Some(t) = &d.table {
        for b in &t.bins {
            let nodes = match b {
                BinDump::List { nodes, .. } | BinDump::Tree { nodes, .. } => nodes,
                _ => continue,
            };
            for n in nodes {
                let v = n.value.ok_or_else(|| format!("node for key {} has a null value", n.key.tag))?;
                if m.insert(n.key.tag, (n.key.origin, vid(v))).is_some() {
                    return Err(format!("key {} occurs twice in the table", n.key.tag));
                }
            }
        }
    }
    Ok(m)
}

/// C05: structural well-formedness at a quiescent point.
pub fn check_quiescent<V>(d: &Dump<'_, K, V>, mode: HMode) -> Result<(), String> {
    if d.next_table.is_some() {
        return Err("map.next_table is not null at quiescence (half-finished resize)".into());
    }
    let t = match &d.table {
        None => {
            if d.size_ctl < 0 {
                return Err(format!("no table but size_ctl = {}", d.size_ctl));
            }
            if d.count != 0 {
                return Err(format!("no table but count = {}", d.count));
            }
            return Ok(());
        }
        Some(t) => t,
    };
    let n = t.bins.len();
    if n == 0 || !n.is_power_of_two() {
        return Err(format!("table length {} is not a power of two", n));
    }
    if n > (1 << 30) {
        return Err(format!("table length {} exceeds 2^30", n));
    }
    if t.next_table != 0 {
        return Err("the current table still has a forwarding target (table.next_table != null)".into());
    }
    if d.size_ctl < 0 {
        return Err(format!("size_ctl = {} (< 0) at quiescence: resize/initialisation state left behind", d.size_ctl));
    }
    let expect = (n - (n >> 2)) as isize;
    if d.size_ctl != expect && n < (1 << 30) {
        return Err(format!("size_ctl = {} but 0.75 * table length {} = {}", d.size_ctl, n, expect));
    }
    let mut seen = StdSet::new();
    let mut count = 0usize;
    for (i, b) in t.bins.iter().enumerate() {
        match b {
            BinDump::Empty => {}
            BinDump::Moved => return Err(format!("bin {} holds a forwarding marker at quiescence", i)),
            BinDump::Invalid { .. } => return Err(format!("bin {} head is a bare tree node", i)),
            BinDump::List { nodes, truncated, .. } => {
                if *truncated {
                    return Err(format!("bin {}: list walk did not terminate (cycle or foreign entry)", i));
                }
                for nd in nodes {
                    if nd.tree.is_some() {
                        return Err(format!("bin {}: tree node inside a list bin", i));
                    }
                    if nd.locked {
                        return Err(format!("bin {}: node lock held at quiescence", i));
                    }
                    check_node(nd, i, n, mode, &mut seen)?;
                    count += 1;
                }
            }
            BinDump::Tree { nodes, truncated, locked, lock_state, waiter, .. } => {
                if *truncated {
                    return Err(format!("bin {}: tree walk did not terminate (cycle or foreign entry)", i));
                }
                if *locked {
                    return Err(format!("bin {}: tree bin lock held at quiescence", i));
                }
                if *lock_state != 0 {
                    return Err(format!("bin {}: tree lock_state = {} at quiescence", i, lock_state));
                }
                if *waiter != 0 {
                    return Err(format!("bin {}: tree bin still has a registered waiter", i));
                }
                for nd in nodes {
                    check_node(nd, i, n, mode, &mut seen)?;
                    count += 1;
                }
                check_tree(b).map_err(|e| format!("bin {}: {}", i, e))?;
            }
        }
    }
    if d.count != count as isize {
        return Err(format!("count = {} but the table holds {} entries", d.count, count));
    }
    Ok(())
}

fn check_node<V>(nd: &NodeDump<'_, K, V>, bin: usize, n: usize, mode: HMode, seen: &mut StdSet<u32>) -> Result<(), String> {
    if !nd.key.intact() {
        return Err(format!("bin {}: stored key {} is dropped or corrupted", bin, nd.key.tag));
    }
    let h = mode.hash_tag(nd.key.tag);
    if nd.hash != h {
        return Err(format!("bin {}: node for key {} carries hash {:#x}, expected {:#x}", bin, nd.key.tag, nd.hash, h));
    }
    if (nd.hash & (n as u64 - 1)) as usize != bin {
        return Err(format!("key {} (hash {:#x}) resides in bin {} of {}, lookups search bin {}", nd.key.tag, nd.hash, bin, n, nd.hash & (n as u64 - 1)));
    }
    if nd.value.is_none() {
        return Err(format!("key {} has a null value pointer", nd.key.tag));
    }
    if !seen.insert(nd.key.tag) {
        return Err(format!("key {} occurs twice", nd.key.tag));
    }
    Ok(())
}

/// C06: red-black / list consistency of one tree bin.
pub fn check_tree<V>(b: &BinDump<'_, K, V>) -> Result<(), String> {
    let (root, first, nodes, tree_only) = match b {
        BinDump::Tree { root, first, nodes, tree_only, .. } => (*root, *first, nodes, tree_only),
        _ => return Ok(()),
    };
    if !tree_only.is_empty() {
        return Err(format!("{} node(s) reachable through the tree but not through the traversal list (e.g. key {})", tree_only.len(), tree_only[0].key.tag));
    }
    if nodes.is_empty() {
        if root != 0 || first != 0 {
            return Err("empty tree bin with non-null root/first".into());
        }
        return Ok(());
    }
    if first != nodes[0].addr {
        return Err("first does not point to the head of the traversal list".into());
    }
    let by_addr: StdMap<usize, &NodeDump<'_, K, V>> = nodes.iter().map(|n| (n.addr, n)).collect();
    // list links
    for (i, nd) in nodes.iter().enumerate() {
        let l = nd.tree.as_ref().ok_or("plain node inside a tree bin")?;
        let want_prev = if i == 0 { 0 } else { nodes[i - 1].addr };
        if l.prev != want_prev {
            return Err(format!("key {}: prev link does not mirror the next link of its predecessor", nd.key.tag));
        }
    }
    if root == 0 {
        return Err("tree bin with entries but null root".into());
    }
    let r = by_addr.get(&root).ok_or("root is not one of the listed nodes")?;
    let rl = r.tree.as_ref().unwrap();
    if rl.parent != 0 {
        return Err("root has a parent".into());
    }
    if rl.red {
        return Err("root is red".into());
    }
    // recursive walk: returns black height; collects in-order sequence
    let mut inorder: Vec<(u64, u32)> = Vec::with_capacity(nodes.len());
    let mut visited = StdSet::new();
    fn walk<'a, V>(
        addr: usize,
        parent: usize,
        parent_red: bool,
        by_addr: &StdMap<usize, &NodeDump<'a, K, V>>,
        inorder: &mut Vec<(u64, u32)>,
        visited: &mut StdSet<usize>,
        depth: usize,
    ) -> Result<usize, String> {
        if addr == 0 {
            return Ok(1);
        }
        if depth > 128 {
            return Err("tree deeper than 128 levels".into());
        }
        let nd = by_addr.get(&addr).ok_or("child link leaves the bin's node set")?;
        if !visited.insert(addr) {
            return Err(format!("key {} reachable twice through child links", nd.key.tag));
        }
        let l = nd.tree.as_ref().unwrap();
        if l.parent != parent {
            return Err(format!("key {}: parent link does not match the node that links to it", nd.key.tag));
        }
        if parent_red && l.red {
            return Err(format!("red node {} has a red parent", nd.key.tag));
        }
        let lh = walk(l.left, addr, l.red, by_addr, inorder, visited, depth + 1)?;
        inorder.push((nd.hash, nd.key.tag));
        let rh = walk(l.right, addr, l.red, by_addr, inorder, visited, depth + 1)?;
        if lh != rh {
            return Err(format!("black heights differ below key {} ({} vs {})", nd.key.tag, lh, rh));
        }
        Ok(lh + if l.red { 0 } else { 1 })
    }
    walk(root, 0, false, &by_addr, &mut inorder, &mut visited, 0)?;
    if visited.len() != nodes.len() {
        return Err(format!("traversal list holds {} entries, the tree {}", nodes.len(), visited.len()));
    }
    for w in inorder.windows(2) {
        if w[0] >= w[1] {
            return Err(format!("tree is not ordered by (hash, key): {:?} before {:?}", w[0], w[1]));
        }
    }
    Ok(())
}

/// every address the map can still reach (tables, bin heads, nodes, values)
pub fn reachable<V>(d: &Dump<'_, K, V>) -> StdSet<usize> {
    let mut s = StdSet::new();
    let mut add = |t: &TableDump<'_, K, V>| {
        s.insert(t.addr);
        for b in &t.bins {
            match b {
                BinDump::List { addr, nodes, .. } => {
                    s.insert(*addr);
                    for n in nodes {
                        s.insert(n.addr);
                        s.insert(n.value_addr);
                    }
                }
                BinDump::Tree { addr, nodes, tree_only, .. } => {
                    s.insert(*addr);
                    for n in nodes.iter().chain(tree_only.iter()) {
                        s.insert(n.addr);
                        s.insert(n.value_addr);
                    }
                }
                _ => {}
            }
        }
    };
    if let Some(t) = &d.table {
        add(t);
    }
    if let Some(t) = &d.next_table {
        add(t);
    }
    s.remove(&0);
    s
}
