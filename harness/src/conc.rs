//! Concurrent programs on top of the E2 scheduler: program language, generators, the executor
//! that runs one (program, schedule) pair, and the bounded schedule exploration.
use crate::inspect;
use crate::lin::{HEnt, HOp};
use crate::model::{Act, Pred};
use crate::sched::{self, Body, Ev, Kind, Pool, ProbeFn, ProbeSel, RunSpec, TraceEnt, Verdict, Wk};
use crate::seq::FMap;
use crate::types::*;
use proptest::prelude::*;
use serde::{Deserialize, Serialize};
use std::collections::BTreeMap;
use std::sync::{Arc, Mutex};

#[derive(Clone, Copy, Debug, PartialEq, Eq, Serialize, Deserialize)]
pub enum GuardMode {
    PerOp,
    PerThread,
    Pin,
}

#[derive(Clone, Debug, PartialEq, Eq, Serialize, Deserialize)]
pub enum COp {
    Get(u16),
    GetKV(u16),
    Contains(u16),
    Insert(u16),
    TryInsert(u16),
    Remove(u16),
    RemoveEntry(u16),
    /// `(&map).extend(..)` of `n` consecutive keys starting at index `from`, through an iterator with
    /// an exact size hint (results are not observable: blind writes)
    Extend(u16, u8),
    Compute(u16, Act),
    Retain(Pred),
    RetainForce(Pred),
    Clear,
    Reserve(u16),
    /// full iteration: 0 iter, 1 keys, 2 values
    IterAll(u8),
    Len,
    /// retain (`force` = retain_force) whose predicate panics at its `at`-th invocation (0-based);
    /// the thread catches the panic and carries on with its next operation
    RetainPanic { pred: Pred, force: bool, at: u8 },
    /// compute_if_present whose closure panics (if the key is present)
    ComputePanic(u16),
}

/// payload of the panics injected by `RetainPanic` / `ComputePanic`
pub struct InjectedPanic;

#[derive(Clone, Debug, PartialEq, Eq, Serialize, Deserialize)]
pub struct CCfg {
    pub hmode: HMode,
    pub capacity: u32,
    pub batch: u32,
    pub gmode: GuardMode,
    /// which hot keys carry the bit that decides low/high half when a 64-bin table is split:
    /// 0 none (the whole hot bin stays in the low half), 1 all (whole bin moves to the high half),
    /// 2 every second key, 3 all but the first two (replay files written before this field: 0)
    #[serde(default)]
    pub hot_pat: u8,
}

#[derive(Clone, Debug, PartialEq, Eq, Serialize, Deserialize)]
pub struct Prog {
    pub cfg: CCfg,
    /// number of filler keys (tags 1, 2, 3, ...) inserted before the threads start
    pub filler: u16,
    /// hot key indices present initially (inserted in this order)
    pub hot_init: Vec<u16>,
    pub threads: Vec<Vec<COp>>,
}

/// hot keys collide in one bin under the identity hasher for every table up to 64 bins (up to 1024
/// bins when `hot_pat` is 0)
static HOT_PAT: std::sync::atomic::AtomicU8 = std::sync::atomic::AtomicU8::new(0);
/// set by `exec`/`build_map` from the program's configuration (one execution at a time per process)
pub fn set_hot_pat(p: u8) {
    HOT_PAT.store(p, std::sync::atomic::Ordering::SeqCst);
}
fn pat_high(i: u16) -> bool {
    match HOT_PAT.load(std::sync::atomic::Ordering::Relaxed) {
        0 => false,
        1 => true,
        2 => i % 2 == 1,
        _ => i >= 2,
    }
}
pub fn hot_tag(i: u16) -> u32 {
    if i < 16 {
        (i as u32) * 1024 + if pat_high(i) { 64 } else { 0 }
    } else {
        5000 + i as u32
    }
}
pub fn filler_tag(j: u16) -> u32 {
    1 + j as u32 + (j as u32 / 1023)
}

impl Prog {
    pub fn keys_used(&self) -> Vec<u16> {
        let mut v: Vec<u16> = self.hot_init.clone();
        for t in &self.threads {
            for op in t {
                match op {
                    COp::Get(k) | COp::GetKV(k) | COp::Contains(k) | COp::Insert(k) | COp::TryInsert(k) | COp::Remove(k) | COp::RemoveEntry(k) | COp::Compute(k, _) | COp::ComputePanic(k) => v.push(*k),
                    COp::Extend(from, n) => v.extend((0..*n as u16).map(|j| from.wrapping_add(j) % 64)),
                    _ => {}
                }
            }
        }
        v.sort();
        v.dedup();
        v
    }
    pub fn has(&self, f: impl Fn(&COp) -> bool) -> bool {
        self.threads.iter().any(|t| t.iter().any(&f))
    }
}

/* ------------------------------- records ------------------------------- */

#[derive(Clone, Debug, Serialize)]
pub struct IterRec {
    pub thread: u8,
    pub kind: u8,
    pub created: u64,
    pub end: u64,
    /// (tag, origin, value id (0 for keys()), stamp of the yield)
    pub yields: Vec<(u32, u32, u64, u64)>,
}

#[derive(Clone, Debug, Serialize)]
pub struct RetainRec {
    pub thread: u8,
    pub force: bool,
    pub inv: u64,
    pub resp: u64,
    /// (tag, value id, keep?, stamp at predicate return)
    pub calls: Vec<(u32, u64, bool, u64)>,
}

#[derive(Clone, Debug, Default, Serialize)]
pub struct Recs {
    pub ops: Vec<HEnt>,
    pub iters: Vec<IterRec>,
    pub retains: Vec<RetainRec>,
    /// (thread, inv, resp)
    pub clears: Vec<(u8, u64, u64)>,
    /// (thread, inv, resp, len)
    pub lens: Vec<(u8, u64, u64, usize)>,
    /// closure invocation counts per compute call: (thread, inv, calls)
    pub compute_calls: Vec<(u8, u64, u32)>,
    /// failures noticed inside worker threads (canaries etc.)
    pub faults: Vec<String>,
    /// values written: id -> (tag, payload)
    pub written: BTreeMap<u64, (u32, u64)>,
    pub held_checked: u64,
    /// injected panics that propagated to the caller
    pub panics: u64,
    /// every (key, value) the map handed out TOGETHER outside an iteration: (key origin, value id,
    /// entry point); iteration yields carry theirs
    pub pairs: Vec<(u32, u64, &'static str)>,
    /// value id -> origin of the key instance passed to the insert / try_insert that wrote it
    pub key_of: Vec<(u64, u32)>,
    /// key comparisons made by each lookup: (thread, key tag, comparisons)
    pub lookup_cmps: Vec<(u8, u32, u64)>,
}

#[derive(Clone, Debug)]
pub struct ExecOpts {
    pub collect_events: bool,
    pub hold_refs: bool,
    pub retire_reachability: bool,
    pub quiescent_check: bool,
    pub ledger_check: bool,
    /// run the happens-before monitor (E5) over the hook stream
    pub hb: bool,
    /// after the run, grow the table once more from the main thread and re-check (C10)
    pub post_growth: bool,
    /// verify the quarantine allocator's poison after the run (C03)
    pub quarantine: bool,
    /// after the run, count the key comparisons of a lookup of every stored key and of a few absent
    /// ones in every crowded bin (C06)
    pub cmp_bound: bool,
    /// after the run, insert fresh keys from the main thread: the table must not grow before the
    /// entry count reaches three quarters of its length (C14)
    pub post_capacity: bool,
}
impl ExecOpts {
    pub const DEFAULT: ExecOpts = ExecOpts { collect_events: false, hold_refs: true, retire_reachability: false, quiescent_check: true, ledger_check: false, hb: false, post_growth: false, quarantine: false, cmp_bound: false, post_capacity: false };
}
impl Default for ExecOpts {
    fn default() -> Self {
        ExecOpts::DEFAULT
    }
}

/// what an isolated probe saw (judged after the run, when the whole history is known)
#[derive(Clone, Debug, Serialize)]
pub enum ProbeObs {
    Get { step: u64, tag: u32, ret: Option<u64> },
    /// (tag, value id) pairs; value id 0 for keys(), tag u32::MAX for values()
    Iter { step: u64, kind: u8, yields: Vec<(u32, u64)> },
    Len { step: u64, len: usize },
}
#[derive(Default)]
pub struct ProbeData {
    pub obs: Vec<ProbeObs>,
    pub classes: BTreeMap<&'static str, u64>,
}
/// rotation counter of the probe window (see `checks::concchecks2::probe_window`)
pub static PROBE_ROT: std::sync::atomic::AtomicU64 = std::sync::atomic::AtomicU64::new(0);

pub type ProbeMaker<'a> = &'a dyn Fn(&Prog, &Arc<FMap>, Arc<Mutex<ProbeData>>) -> (ProbeSel, ProbeFn);

#[derive(Clone, Debug, Default)]
pub struct HbSummary {
    pub violations: Vec<String>,
    pub checked: u64,
    pub cross_thread: u64,
    pub cross_copy: u64,
}

pub struct ConcOut {
    /// address range of the map object itself (its control words: table, next_table, size_ctl,
    /// transfer_index, count)
    pub map_range: (usize, usize),
    pub recs: Recs,
    pub verdict: Option<Verdict>,
    pub trace: Vec<TraceEnt>,
    pub performed: Vec<(u64, u8)>,
    pub steps: u64,
    pub blocked: bool,
    pub parked: bool,
    pub spun: bool,
    pub probes: u64,
    pub events: Vec<Ev>,
    /// tag -> (origin, value id, payload) before / after the concurrent part
    pub init: BTreeMap<u32, (u32, u64, u64)>,
    pub fin: BTreeMap<u32, (u32, u64, u64)>,
    /// failure of an oracle evaluated by the executor itself (quiescent check, retire reachability, ledger)
    pub oracle_fail: Option<(&'static str, String)>,
    pub table_len_before: usize,
    pub table_len_after: usize,
    pub tree_bins_before: usize,
    pub tree_bins_after: usize,
    /// bin index -> (is a tree bin, entries) after the run
    pub bins_after: BTreeMap<usize, (bool, usize)>,
    pub end_stamp: u64,
    /// K/V instances dropped before the map itself was dropped
    pub reclaimed_during_run: u64,
    pub probe_obs: Vec<ProbeObs>,
    pub probe_classes: BTreeMap<&'static str, u64>,
    pub hb: Option<HbSummary>,
    pub freed_blocks: u64,
}

enum Held {
    K(*const K, u32, u64),
    V(*const V, u64),
}

struct ThreadLog {
    recs: Recs,
    held: Vec<Held>,
}

fn verify_held(log: &mut ThreadLog, when: &str) {
    for h in log.held.drain(..) {
        log.recs.held_checked += 1;
        match h {
            Held::K(p, tag, inst) => {
                let k = unsafe { &*p };
                if !(k.intact() && k.tag == tag && k.inst == inst) {
                    log.recs.faults.push(format!("C03: key reference (tag {}) dangling or changed {}", tag, when));
                }
            }
            Held::V(p, id) => {
                let v = unsafe { &*p };
                if !(v.intact() && v.id == id) {
                    log.recs.faults.push(format!("C03: value reference (id {}) dangling or changed {}", id, when));
                }
            }
        }
    }
}

fn run_thread(wk: &Wk<'_>, map: &FMap, cfg: &CCfg, ops: &[COp], hold: bool, log: &mut ThreadLog) {
    let me = wk.me as u8;
    let thread_guard = if cfg.gmode == GuardMode::PerThread { Some(map.guard()) } else { None };
    for op in ops {
        // (serialisation and Debug take no guard: under the per-operation and pinned modes the
        // thread then holds none of its own, so the entry point's own pinning is what protects it)
        let guardless = matches!(op, COp::IterAll(k) if *k >= 3);
        let own_guard = if cfg.gmode == GuardMode::PerOp && !guardless { Some(map.guard()) } else { None };
        let g: Option<&seize::Guard<'_>> = thread_guard.as_ref().or(own_guard.as_ref());
        macro_rules! hv {
            ($v:expr) => {{
                let v: &V = $v;
                if hold {
                    log.held.push(Held::V(v as *const V, v.id));
                }
                wk.user(crate::hb::U_ACCESS_V, v.id, 0);
                v.id
            }};
        }
        macro_rules! hk {
            ($k:expr) => {{
                let k: &K = $k;
                if hold {
                    log.held.push(Held::K(k as *const K, k.tag, k.inst));
                }
                wk.user(crate::hb::U_ACCESS_K, k.inst, 0);
                k.origin
            }};
        }
        match op {
            COp::Get(i) | COp::GetKV(i) => {
                let tag = hot_tag(*i);
                let k = K::probe(tag);
                let c0 = cmps();
                let inv = wk.op_start();
                let ret = match (g, matches!(op, COp::GetKV(_))) {
                    (Some(g), false) => map.get(&k, g).map(|v| hv!(v)),
                    (Some(g), true) => map.get_key_value(&k, g).map(|(kk, v)| {
                        let o = hk!(kk);
                        log.recs.pairs.push((o, v.id, "get_key_value"));
                        hv!(v)
                    }),
                    (None, false) => {
                        let p = map.pin();
                        let r = p.get(&k).map(|v| hv!(v));
                        verify_held(log, "before the pin was released");
                        r
                    }
                    (None, true) => {
                        let p = map.pin();
                        let r = p.get_key_value(&k).map(|(kk, v)| {
                            let o = hk!(kk);
                            log.recs.pairs.push((o, v.id, "pin().get_key_value"));
                            hv!(v)
                        });
                        verify_held(log, "before the pin was released");
                        r
                    }
                };
                let resp = wk.op_end();
                log.recs.lookup_cmps.push((me, tag, cmps() - c0));
                log.recs.ops.push(HEnt { thread: me, inv, resp, key: tag, op: HOp::Get { ret } });
            }
            COp::Contains(i) => {
                let tag = hot_tag(*i);
                let k = K::probe(tag);
                let c0 = cmps();
                let inv = wk.op_start();
                let ret = match g {
                    Some(g) => map.contains_key(&k, g),
                    None => map.pin().contains_key(&k),
                };
                let resp = wk.op_end();
                log.recs.lookup_cmps.push((me, tag, cmps() - c0));
                log.recs.ops.push(HEnt { thread: me, inv, resp, key: tag, op: HOp::Contains { ret } });
            }
            COp::Insert(i) => {
                let tag = hot_tag(*i);
                let v = V::new(1000 + tag as u64);
                let vid = v.id;
                log.recs.written.insert(vid, (tag, v.payload));
                let k = K::new(tag);
                log.recs.key_of.push((vid, k.origin));
                wk.user(crate::hb::U_INIT_V, vid, 0);
                wk.user(crate::hb::U_INIT_K, k.inst, 0);
                let inv = wk.op_start();
                let ret = match g {
                    Some(g) => map.insert(k, v, g).map(|v| hv!(v)),
                    None => {
                        let p = map.pin();
                        let r = p.insert(k, v).map(|v| hv!(v));
                        verify_held(log, "before the pin was released");
                        r
                    }
                };
                let resp = wk.op_end();
                log.recs.ops.push(HEnt { thread: me, inv, resp, key: tag, op: HOp::Insert { new: vid, ret } });
            }
            COp::TryInsert(i) => {
                let tag = hot_tag(*i);
                let v = V::new(2000 + tag as u64);
                let vid = v.id;
                log.recs.written.insert(vid, (tag, v.payload));
                let k = K::new(tag);
                log.recs.key_of.push((vid, k.origin));
                wk.user(crate::hb::U_INIT_V, vid, 0);
                wk.user(crate::hb::U_INIT_K, k.inst, 0);
                let inv = wk.op_start();
                let mut bad = None;
                let mut conv = |r: Result<&V, flurry::TryInsertError<'_, V>>, log: &mut ThreadLog| match r {
                    Ok(v) => {
                        if v.id != vid {
                            bad = Some(format!("C01: try_insert returned Ok with value {} instead of the inserted {}", v.id, vid));
                        }
                        if hold {
                            log.held.push(Held::V(v as *const V, v.id));
                        }
                        wk.user(crate::hb::U_ACCESS_V, v.id, 0);
                        Ok(())
                    }
                    Err(e) => {
                        if e.not_inserted.id != vid || !e.not_inserted.intact() {
                            bad = Some(format!("C04: try_insert handed back value {} (intact: {}) instead of the refused {}", e.not_inserted.id, e.not_inserted.intact(), vid));
                        }
                        if hold {
                            log.held.push(Held::V(e.current as *const V, e.current.id));
                        }
                        wk.user(crate::hb::U_ACCESS_V, e.current.id, 0);
                        Err(e.current.id)
                    }
                };
                let ret = match g {
                    Some(g) => conv(map.try_insert(k, v, g), log),
                    None => {
                        let p = map.pin();
                        let r = conv(p.try_insert(k, v), log);
                        verify_held(log, "before the pin was released");
                        r
                    }
                };
                let resp = wk.op_end();
                if let Some(b) = bad {
                    log.recs.faults.push(b);
                }
                log.recs.ops.push(HEnt { thread: me, inv, resp, key: tag, op: HOp::TryInsert { new: vid, ret } });
            }
            COp::Remove(i) | COp::RemoveEntry(i) => {
                let tag = hot_tag(*i);
                let k = K::probe(tag);
                let inv = wk.op_start();
                let ret = match (g, matches!(op, COp::RemoveEntry(_))) {
                    (Some(g), false) => map.remove(&k, g).map(|v| hv!(v)),
                    (Some(g), true) => map.remove_entry(&k, g).map(|(kk, v)| {
                        let o = hk!(kk);
                        log.recs.pairs.push((o, v.id, "remove_entry"));
                        hv!(v)
                    }),
                    (None, false) => {
                        let p = map.pin();
                        let r = p.remove(&k).map(|v| hv!(v));
                        verify_held(log, "before the pin was released");
                        r
                    }
                    (None, true) => {
                        let p = map.pin();
                        let r = p.remove_entry(&k).map(|(kk, v)| {
                            let o = hk!(kk);
                            log.recs.pairs.push((o, v.id, "pin().remove_entry"));
                            hv!(v)
                        });
                        verify_held(log, "before the pin was released");
                        r
                    }
                };
                let resp = wk.op_end();
                log.recs.ops.push(HEnt { thread: me, inv, resp, key: tag, op: HOp::Remove { ret } });
            }
            COp::Compute(i, act) => {
                let tag = hot_tag(*i);
                let k = K::probe(tag);
                let calls = std::cell::Cell::new(0u32);
                let seen = std::cell::Cell::new(None::<u64>);
                let out = std::cell::Cell::new(None::<(u64, u64)>);
                let seen_key = std::cell::Cell::new(0u32);
                let f = |kk: &K, v: &V| -> Option<V> {
                    calls.set(calls.get() + 1);
                    seen.set(Some(v.id));
                    seen_key.set(kk.origin);
                    wk.user(crate::hb::U_ACCESS_K, kk.inst, 0);
                    wk.user(crate::hb::U_ACCESS_V, v.id, 0);
                    match act {
                        Act::Inc => {
                            let nv = V::new(v.payload + 1);
                            out.set(Some((nv.id, nv.payload)));
                            wk.user(crate::hb::U_INIT_V, nv.id, 0);
                            Some(nv)
                        }
                        Act::Set => {
                            let nv = V::new(3000 + tag as u64);
                            out.set(Some((nv.id, nv.payload)));
                            wk.user(crate::hb::U_INIT_V, nv.id, 0);
                            Some(nv)
                        }
                        Act::Remove => None,
                    }
                };
                let inv = wk.op_start();
                let ret = match g {
                    Some(g) => map.compute_if_present(&k, f, g).map(|v| hv!(v)),
                    None => {
                        let p = map.pin();
                        let r = p.compute_if_present(&k, f).map(|v| hv!(v));
                        verify_held(log, "before the pin was released");
                        r
                    }
                };
                let resp = wk.op_end();
                if let Some((id, p)) = out.get() {
                    log.recs.written.insert(id, (tag, p));
                }
                if let Some(sv) = seen.get() {
                    log.recs.pairs.push((seen_key.get(), sv, "the closure of compute_if_present"));
                }
                log.recs.compute_calls.push((me, inv, calls.get()));
                log.recs.ops.push(HEnt { thread: me, inv, resp, key: tag, op: HOp::Compute { seen: seen.get(), out: out.get().map(|x| x.0), ret } });
            }
            COp::Retain(p) | COp::RetainForce(p) => {
                let force = matches!(op, COp::RetainForce(_));
                let calls = std::cell::RefCell::new(Vec::new());
                let shown = std::cell::RefCell::new(Vec::new());
                let f = |k: &K, v: &V| -> bool {
                    wk.user(crate::hb::U_ACCESS_K, k.inst, 0);
                    wk.user(crate::hb::U_ACCESS_V, v.id, 0);
                    let keep = p.keep(k.tag, v.payload);
                    calls.borrow_mut().push((k.tag, v.id, keep, wk.now()));
                    shown.borrow_mut().push((k.origin, v.id, "the predicate of retain / retain_force"));
                    keep
                };
                let inv = wk.op_start();
                match (g, force) {
                    (Some(g), false) => map.retain(f, g),
                    (Some(g), true) => map.retain_force(f, g),
                    (None, false) => map.pin().retain(f),
                    (None, true) => map.pin().retain_force(f),
                }
                let resp = wk.op_end();
                log.recs.pairs.extend(shown.into_inner());
                log.recs.retains.push(RetainRec { thread: me, force, inv, resp, calls: calls.into_inner() });
            }
            COp::RetainPanic { pred, force, at } => {
                let calls = std::cell::RefCell::new(Vec::new());
                let seen = std::cell::Cell::new(0u32);
                let f = |k: &K, v: &V| -> bool {
                    if seen.get() == *at as u32 {
                        std::panic::panic_any(InjectedPanic);
                    }
                    seen.set(seen.get() + 1);
                    let keep = pred.keep(k.tag, v.payload);
                    calls.borrow_mut().push((k.tag, v.id, keep, wk.now()));
                    keep
                };
                let inv = wk.op_start();
                let r = std::panic::catch_unwind(std::panic::AssertUnwindSafe(|| match (g, *force) {
                    (Some(g), false) => map.retain(f, g),
                    (Some(g), true) => map.retain_force(f, g),
                    (None, false) => map.pin().retain(f),
                    (None, true) => map.pin().retain_force(f),
                }));
                if let Err(e) = r {
                    if !e.is::<InjectedPanic>() {
                        std::panic::resume_unwind(e);
                    }
                    log.recs.panics += 1;
                }
                let resp = wk.op_end();
                log.recs.retains.push(RetainRec { thread: me, force: *force, inv, resp, calls: calls.into_inner() });
            }
            COp::ComputePanic(i) => {
                let tag = hot_tag(*i);
                let k = K::probe(tag);
                let f = |_: &K, _: &V| -> Option<V> { std::panic::panic_any(InjectedPanic) };
                let _ = wk.op_start();
                let r = std::panic::catch_unwind(std::panic::AssertUnwindSafe(|| match g {
                    Some(g) => map.compute_if_present(&k, f, g).map(|v| v.id),
                    None => map.pin().compute_if_present(&k, f).map(|v| v.id),
                }));
                match r {
                    Err(e) => {
                        if !e.is::<InjectedPanic>() {
                            std::panic::resume_unwind(e);
                        }
                        log.recs.panics += 1;
                    }
                    Ok(Some(id)) => log.recs.faults.push(format!("C18: compute_if_present with a panicking closure returned value {} instead of propagating the panic", id)),
                    Ok(None) => {}
                }
                let _ = wk.op_end();
            }
            COp::Extend(from, n) => {
                let mut items = Vec::new();
                let mut ids = Vec::new();
                for j in 0..*n as u16 {
                    let tag = hot_tag(from.wrapping_add(j) % 64);
                    let v = V::new(4000 + tag as u64);
                    log.recs.written.insert(v.id, (tag, v.payload));
                    let k = K::new(tag);
                    wk.user(crate::hb::U_INIT_V, v.id, 0);
                    wk.user(crate::hb::U_INIT_K, k.inst, 0);
                    ids.push((tag, v.id));
                    items.push((k, v));
                }
                let inv = wk.op_start();
                let mut target: &FMap = map;
                target.extend(items);
                let resp = wk.op_end();
                for (tag, vid) in ids {
                    log.recs.ops.push(HEnt { thread: me, inv, resp, key: tag, op: HOp::Put { new: vid } });
                }
            }
            COp::Clear => {
                let inv = wk.op_start();
                match g {
                    Some(g) => map.clear(g),
                    None => map.pin().clear(),
                }
                let resp = wk.op_end();
                log.recs.clears.push((me, inv, resp));
            }
            COp::Reserve(n) => {
                let _ = wk.op_start();
                match g {
                    Some(g) => map.reserve(*n as usize, g),
                    None => map.pin().reserve(*n as usize),
                }
                let _ = wk.op_end();
            }
            COp::IterAll(kind) => {
                let created = wk.op_start();
                let mut yields = Vec::new();
                let pin;
                let unprot;
                let gg: &seize::Guard<'_> = match g {
                    Some(g) => g,
                    None if *kind >= 3 => {
                        // never used by these kinds
                        unprot = unsafe { seize::Guard::unprotected() };
                        &unprot
                    }
                    None => {
                        pin = map.guard();
                        &pin
                    }
                };
                match kind {
                    0 => {
                        for (k, v) in map.iter(gg) {
                            let o = hk!(k);
                            let id = hv!(v);
                            yields.push((k.tag, o, id, wk.now()));
                        }
                    }
                    1 => {
                        for k in map.keys(gg) {
                            let o = hk!(k);
                            yields.push((k.tag, o, 0, wk.now()));
                        }
                    }
                    2 => {
                        for v in map.values(gg) {
                            let id = hv!(v);
                            yields.push((u32::MAX, 0, id, wk.now()));
                        }
                    }
                    // serialisation (serde): a traversal too.  3 / 4: JSON text of the map / of a
                    // pinned reference, re-read keeping duplicate keys; 5 / 6: the same through a
                    // format that trusts the announced length
                    // Debug of the map / of a pinned reference (exercised, not judged by content)
                    7 | 8 => {
                        let text = if *kind == 7 { format!("{:?}", map) } else { format!("{:?}", map.pin()) };
                        if !text.starts_with('{') || !text.ends_with('}') {
                            log.recs.faults.push(format!("C07: Debug of the map under update printed {:?}", text));
                        }
                    }
                    k => {
                        let k = *k;
                        let pinned = k % 2 == 0;
                        let entries: Result<Vec<(u64, u64)>, String> = if k <= 4 {
                            let js = if pinned { serde_json::to_string(&map.pin()) } else { serde_json::to_string(map) };
                            js.map_err(|e| e.to_string()).and_then(|j| serde_json::from_str::<crate::strictser::JsonPairs>(&j).map(|p| p.0).map_err(|e| format!("{} ({:?})", e, j)))
                        } else {
                            let d = if pinned { crate::strictser::to_doc(&map.pin()) } else { crate::strictser::to_doc(map) };
                            d.and_then(|d| d.check().map(|_| d.entries))
                        };
                        match entries {
                            Ok(es) => {
                                let at = wk.now();
                                for (t, _) in es {
                                    yields.push((t as u32, 0, 0, at));
                                }
                            }
                            Err(e) => log.recs.faults.push(format!("C19: serialising the map{} while other threads update it: {}", if pinned { " (pinned reference)" } else { "" }, e)),
                        }
                    }
                }
                if g.is_none() {
                    verify_held(log, "before the iteration's guard was released");
                }
                let end = wk.op_end();
                if *kind < 7 {
                    log.recs.iters.push(IterRec { thread: me, kind: *kind, created, end, yields });
                }
            }
            COp::Len => {
                let inv = wk.op_start();
                let l = map.len();
                let resp = wk.op_end();
                log.recs.lens.push((me, inv, resp, l));
            }
        }
        if own_guard.is_some() {
            verify_held(log, "before the operation's guard was dropped");
        }
        drop(own_guard);
    }
    verify_held(log, "before the thread's guard was dropped");
    drop(thread_guard);
}

pub fn build_map(prog: &Prog) -> (Arc<FMap>, BTreeMap<u32, (u32, u64, u64)>) {
    set_hot_pat(prog.cfg.hot_pat);
    let c = seize::Collector::new().batch_size(prog.cfg.batch as usize);
    let map = FMap::with_capacity_and_hasher(prog.cfg.capacity as usize, HB(prog.cfg.hmode)).with_collector(c);
    let mut init = BTreeMap::new();
    {
        let g = map.guard();
        for j in 0..prog.filler {
            let k = K::new(filler_tag(j));
            let v = V::new(j as u64);
            map.insert(k, v, &g);
        }
        for i in &prog.hot_init {
            let k = K::new(hot_tag(*i));
            let v = V::new(100);
            map.insert(k, v, &g);
        }
        for (k, v) in map.iter(&g) {
            init.insert(k.tag, (k.origin, v.id, v.payload));
        }
    }
    (Arc::new(map), init)
}

pub struct SchedSpec<'a> {
    pub switches: Vec<(u64, u8)>,
    pub relative: Vec<(u8, u64, u8)>,
    pub random: Option<(u64, u32)>,
    pub record_trace: bool,
    pub probe: Option<ProbeMaker<'a>>,
    pub step_budget: u64,
}
impl Default for SchedSpec<'_> {
    fn default() -> Self {
        SchedSpec { switches: vec![], relative: vec![], random: None, record_trace: false, probe: None, step_budget: 200_000 }
    }
}

/// run one (program, schedule) pair
pub fn exec(pool: &Pool, prog: &Prog, spec: SchedSpec<'_>, opts: &ExecOpts, map_in: Option<(Arc<FMap>, BTreeMap<u32, (u32, u64, u64)>)>) -> ConcOut {
    set_hot_pat(prog.cfg.hot_pat);
    let _ = take_dead_touch();
    if map_in.is_none() {
        ledger_reset();
    }
    let (map, init) = map_in.unwrap_or_else(|| build_map(prog));
    let before = inspect::shape(&unsafe { map.verif_dump() });
    let map_range = (Arc::as_ptr(&map) as usize, Arc::as_ptr(&map) as usize + std::mem::size_of::<FMap>());
    let logs: Vec<Arc<Mutex<Option<ThreadLogOut>>>> = (0..prog.threads.len()).map(|_| Arc::new(Mutex::new(None))).collect();
    let events: Arc<Mutex<Vec<Ev>>> = Arc::new(Mutex::new(Vec::new()));
    let retire_fail: Arc<Mutex<Option<String>>> = Arc::new(Mutex::new(None));
    let hb_mon: Arc<Mutex<crate::hb::Hb>> = Arc::new(Mutex::new(crate::hb::Hb::new()));
    let freed0 = crate::alloc::freed_blocks();
    let qmark = crate::alloc::marker();
    let sink: Option<sched::Sink> = if opts.collect_events || opts.retire_reachability || opts.hb {
        let ev = events.clone();
        let hbm = hb_mon.clone();
        let do_hb = opts.hb;
        let collect = opts.collect_events;
        let rr = opts.retire_reachability;
        let rf = retire_fail.clone();
        let mp: *const FMap = Arc::as_ptr(&map);
        let mp = mp as usize;
        Some(Box::new(move |e: &Ev| {
            if do_hb {
                hbm.lock().unwrap().on(e);
            }
            if collect && matches!(e, Ev::Site { .. }) {
                ev.lock().unwrap().push(*e);
            }
            if rr {
                if let Ev::Site { kind, a, b, thread, step } = e {
                    if *kind == flurry::verif::EV_RETIRE && *b == 0 {
                        // collector 0 = `Guard::unprotected()`: the object is freed on the spot,
                        // whatever guards the other threads hold.  No operation of this harness
                        // passes such a guard in, so the map created it itself
                        let mut g = rf.lock().unwrap();
                        if g.is_none() {
                            *g = Some(format!("T{} at step {} retired {:#x} through an unprotected guard while the map is shared: it is freed immediately, under the guards of the other threads", thread, step, a));
                        }
                    }
                    if *kind == flurry::verif::EV_RETIRE {
                        let m = unsafe { &*(mp as *const FMap) };
                        let d = unsafe { m.verif_dump() };
                        if inspect::reachable(&d).contains(a) {
                            let mut g = rf.lock().unwrap();
                            if g.is_none() {
                                *g = Some(format!("T{} at step {} retired {:#x} while it is still reachable from the table (retire must come after unlinking)", thread, step, a));
                            }
                        }
                    }
                }
            }
        }))
    } else {
        None
    };
    let mut bodies: Vec<Body> = Vec::new();
    for (ti, ops) in prog.threads.iter().enumerate() {
        let map = map.clone();
        let cfg = prog.cfg.clone();
        let ops = ops.clone();
        let slot = logs[ti].clone();
        let hold = opts.hold_refs;
        bodies.push(Box::new(move |wk: &Wk<'_>| {
            let mut log = ThreadLog { recs: Recs::default(), held: Vec::new() };
            let r = std::panic::catch_unwind(std::panic::AssertUnwindSafe(|| run_thread(wk, &map, &cfg, &ops, hold, &mut log)));
            log.held.clear();
            *slot.lock().unwrap() = Some(ThreadLogOut(log.recs));
            drop(map);
            if let Err(e) = r {
                std::panic::resume_unwind(e);
            }
        }));
    }
    let probe_data: Arc<Mutex<ProbeData>> = Arc::new(Mutex::new(ProbeData::default()));
    let probe = spec.probe.map(|mk| mk(prog, &map, probe_data.clone()));
    let rs = RunSpec { switches: spec.switches, relative: spec.relative, random: spec.random, record_trace: spec.record_trace, probe, step_budget: spec.step_budget, first: 0, sink };
    let out = sched::run(pool, rs, bodies);
    drop(out.sink);
    let mut recs = Recs::default();
    for l in &logs {
        if let Some(ThreadLogOut(r)) = l.lock().unwrap().take() {
            recs.ops.extend(r.ops);
            recs.iters.extend(r.iters);
            recs.retains.extend(r.retains);
            recs.clears.extend(r.clears);
            recs.lens.extend(r.lens);
            recs.compute_calls.extend(r.compute_calls);
            recs.faults.extend(r.faults);
            recs.written.extend(r.written);
            recs.held_checked += r.held_checked;
            recs.panics += r.panics;
            recs.pairs.extend(r.pairs);
            recs.key_of.extend(r.key_of);
            recs.lookup_cmps.extend(r.lookup_cmps);
        }
    }
    let mut oracle_fail: Option<(&'static str, String)> = None;
    if let Some(m) = retire_fail.lock().unwrap().take() {
        oracle_fail = Some(("C03", m));
    }
    if let Some(m) = take_dead_touch() {
        if oracle_fail.is_none() {
            oracle_fail = Some(("C03", format!("during the concurrent part {}", m)));
        }
    }
    let mut fin = BTreeMap::new();
    let mut after = inspect::Shape::default();
    let aborted = out.verdict.is_some();
    let mut map = Some(map);
    if aborted {
        // the structure may be mid-operation (threads were unwound): do not touch or drop it
        let m = map.take().unwrap();
        std::mem::forget(m);
    } else {
        let m = map.as_ref().unwrap();
        {
            let g = m.guard();
            for (k, v) in m.iter(&g) {
                fin.insert(k.tag, (k.origin, v.id, v.payload));
            }
        }
        let d = unsafe { m.verif_dump() };
        after = inspect::shape(&d);
        if opts.cmp_bound && oracle_fail.is_none() && after.table_len >= 64 {
            let g = m.guard();
            let mask = after.table_len as u64 - 1;
            let mut tags: Vec<u32> = fin.keys().copied().collect();
            // absent keys of the hot bin too
            tags.extend((0..16u16).map(hot_tag));
            tags.sort();
            tags.dedup();
            for t in tags {
                let b = (prog.cfg.hmode.hash_tag(t) & mask) as usize;
                let (is_tree, n) = after.bins.get(&b).copied().unwrap_or((false, 0));
                if n < 8 || !is_tree {
                    continue;
                }
                let c0 = cmps();
                let _ = m.get(&K::probe(t), &g);
                let c = cmps() - c0;
                let bound = (4.0 * ((n + 1) as f64).log2()).ceil() as u64 + 2;
                if c > bound {
                    oracle_fail = Some(("C06", format!("after the concurrent part, get({}) in the tree bin {} of {} colliding keys (table {}) cost {} key comparisons, bound {}", t, b, n, after.table_len, c, bound)));
                    break;
                }
            }
        }
        if opts.quiescent_check && oracle_fail.is_none() {
            if let Err(e) = quiescent_agreement(m, prog, &fin) {
                oracle_fail = Some(("C05", e));
            } else if let Err(e) = inspect::check_quiescent(&d, prog.cfg.hmode) {
                oracle_fail = Some(("C05", e));
            }
        }
        if opts.post_capacity && oracle_fail.is_none() && after.table_len > 0 && after.table_len <= 4096 {
            let r = std::panic::catch_unwind(std::panic::AssertUnwindSafe(|| -> Result<(), String> {
                let g = m.guard();
                let n0 = after.table_len;
                let thr = n0 - (n0 >> 2);
                let mut count = fin.len();
                let mut i = 0u32;
                while count + 1 < thr {
                    // tags that spread over the bins under the identity hasher
                    m.insert(K::new(4_000_000 + i), V::new(0), &g);
                    i += 1;
                    count += 1;
                    let n1 = unsafe { m.verif_table_len() };
                    if n1 != n0 {
                        // (a bin of 8 or more nodes in a table below 64 bins grows the table instead of
                        // becoming a tree: only the identity hasher, under which the fresh keys fall
                        // into different bins, lets us exclude that)
                        if n0 < 64 && (after.max_list >= 8 || prog.cfg.hmode != HMode::Identity) {
                            return Ok(());
                        }
                        return Err(format!("after the concurrent part the {}-bin table held {} entries; inserting {} more (now {}, threshold {}) changed it to {} bins", n0, fin.len(), i, count, thr, n1));
                    }
                }
                Ok(())
            }));
            match r {
                Ok(Ok(())) => {}
                Ok(Err(e)) => oracle_fail = Some(("C14", e)),
                Err(_) => oracle_fail = Some(("C14", "inserting after the concurrent part panicked".into())),
            }
        }
        if opts.post_growth && oracle_fail.is_none() && after.table_len > 0 && after.table_len <= 4096 {
            // a later growth still works: fill from the main thread until the table doubles once more
            let r = std::panic::catch_unwind(std::panic::AssertUnwindSafe(|| {
                let g = m.guard();
                let n0 = after.table_len;
                let mut i = 0u32;
                while unsafe { m.verif_table_len() } == n0 && (i as usize) < 2 * n0 + 8 {
                    m.insert(K::new(3_000_000 + i), V::new(0), &g);
                    i += 1;
                }
                drop(g);
                let n1 = unsafe { m.verif_table_len() };
                // (an overfull bin in a small table may legitimately grow it by more than one doubling)
                if n1 <= n0 || n1 % n0 != 0 || !(n1 / n0).is_power_of_two() {
                    return Err(format!("after the concurrent resizes, inserting {} more entries into the {}-bin table left it at {} bins", i, n0, n1));
                }
                inspect::check_quiescent(&unsafe { m.verif_dump() }, prog.cfg.hmode)
            }));
            match r {
                Ok(Ok(())) => {}
                Ok(Err(e)) => oracle_fail = Some(("C10", e)),
                Err(_) => oracle_fail = Some(("C10", "growing the table after the concurrent part panicked".into())),
            }
        }
    }
    if opts.quarantine && oracle_fail.is_none() {
        let (df, dsz) = crate::alloc::take_double_frees();
        if df > 0 {
            oracle_fail = Some(("C03", format!("double free: a block of {} bytes that was already freed (and is parked in the quarantine) was freed again ({} such frees in this execution)", dsz, df)));
        }
    }
    if opts.quarantine && oracle_fail.is_none() {
        let c = crate::alloc::check_since(qmark);
        if c > 0 {
            let (_, size, off) = crate::alloc::drain_and_check();
            oracle_fail = Some(("C03", format!("write after free: a freed block of {} bytes was modified at offset {} while parked in the quarantine", size, off)));
        }
    }
    let events = std::mem::take(&mut *events.lock().unwrap());
    let mut reclaimed_during_run = 0;
    if opts.ledger_check && !aborted {
        let snap = ledger_snapshot();
        reclaimed_during_run = snap.iter().filter(|i| !i.is_key && i.drops > 0 && recs.written.contains_key(&i.ident)).count() as u64;
        for e in fin.values() {
            if let Some(i) = snap.iter().find(|i| !i.is_key && i.ident == e.1) {
                if i.drops != 0 && oracle_fail.is_none() {
                    oracle_fail = Some(("C04", format!("value {} is still stored after the run but has already been dropped", e.1)));
                }
            }
        }
    }
    let ledger_after = opts.ledger_check && !aborted;
    if let Some(m) = map.take() {
        match Arc::try_unwrap(m) {
            Ok(m) => {
                let r = std::panic::catch_unwind(std::panic::AssertUnwindSafe(move || drop(m)));
                if r.is_err() && oracle_fail.is_none() {
                    oracle_fail = Some(("C10", "dropping the map after the run panicked".into()));
                }
            }
            Err(m) => std::mem::forget(m),
        }
    }
    if ledger_after && oracle_fail.is_none() {
        for i in ledger_snapshot() {
            if i.drops != 1 {
                oracle_fail = Some((
                    "C04",
                    format!(
                        "{} instance ({} {}, {}) was dropped {} times by the end of the run (map dropped, all guards released)",
                        if i.is_key { "key" } else { "value" },
                        if i.is_key { "tag" } else { "id" },
                        i.ident,
                        if i.cloned { "cloned by the map" } else { "created by the caller" },
                        i.drops
                    ),
                ));
                break;
            }
        }
    }
    let (probe_obs, probe_classes) = {
        let mut pd = probe_data.lock().unwrap();
        (std::mem::take(&mut pd.obs), std::mem::take(&mut pd.classes))
    };
    let hb = if opts.hb {
        let h = hb_mon.lock().unwrap();
        Some(HbSummary { violations: h.violations.clone(), checked: h.checked, cross_thread: h.cross_thread, cross_copy: h.cross_copy })
    } else {
        None
    };
    ConcOut {
        map_range,
        recs,
        verdict: out.verdict,
        trace: out.trace,
        performed: out.performed,
        steps: out.steps,
        blocked: out.blocked,
        parked: out.parked,
        spun: out.spun,
        probes: out.probes,
        events,
        init,
        fin,
        oracle_fail,
        table_len_before: before.table_len,
        table_len_after: after.table_len,
        tree_bins_before: before.tree_bins,
        tree_bins_after: after.tree_bins,
        bins_after: after.bins.clone(),
        end_stamp: out.steps + 1,
        reclaimed_during_run,
        probe_obs,
        probe_classes,
        hb,
        freed_blocks: crate::alloc::freed_blocks() - freed0,
    }
}

struct ThreadLogOut(Recs);
unsafe impl Send for ThreadLogOut {}

/// C05 at the quiescent point after join: iteration = lookups = len
fn quiescent_agreement(m: &FMap, prog: &Prog, fin: &BTreeMap<u32, (u32, u64, u64)>) -> Result<(), String> {
    let g = m.guard();
    let mut tags: Vec<u32> = (0..prog.filler).map(filler_tag).collect();
    for k in prog.keys_used() {
        tags.push(hot_tag(k));
    }
    tags.sort();
    tags.dedup();
    let mut looked = BTreeMap::new();
    for t in &tags {
        if let Some(v) = m.get(&K::probe(*t), &g) {
            looked.insert(*t, v.id);
        }
    }
    let it: BTreeMap<u32, u64> = fin.iter().map(|(t, e)| (*t, e.1)).collect();
    if it != looked {
        return Err(format!("after all threads finished iteration yields {:?} but lookups succeed for {:?}", it, looked));
    }
    let n = m.iter(&g).count();
    if n != fin.len() {
        return Err(format!("iteration yielded {} entries, {} distinct keys", n, fin.len()));
    }
    if m.len() != fin.len() || m.is_empty() != fin.is_empty() {
        return Err(format!("len() = {} but the map holds {} entries", m.len(), fin.len()));
    }
    Ok(())
}

/* ------------------------------- generators ------------------------------- */

pub fn ccfg_strategy() -> impl Strategy<Value = CCfg> {
    (
        prop_oneof![3 => Just(HMode::Identity), 2 => Just(HMode::Const0), 1 => Just(HMode::ConstMax), 2 => Just(HMode::SameBin), 1 => Just(HMode::High), 1 => Just(HMode::Mod4), 2 => Just(HMode::Mix), 1 => Just(HMode::PairBin), 1 => Just(HMode::FewHigh), 1 => Just(HMode::Shift4)],
        prop_oneof![2 => Just(0u32), 1 => Just(1u32), 2 => Just(20u32), 3 => Just(42u32), 1 => Just(85u32), 1 => 2u32..40],
        prop_oneof![3 => Just(1u32), 1 => Just(2u32), 1 => Just(8u32), 1 => Just(120u32)],
        prop_oneof![2 => Just(GuardMode::PerOp), 2 => Just(GuardMode::PerThread), 1 => Just(GuardMode::Pin)],
        prop_oneof![6 => Just(0u8), 2 => Just(1u8), 1 => Just(2u8), 1 => Just(3u8)],
    )
        .prop_map(|(hmode, capacity, batch, gmode, hot_pat)| CCfg { hmode, capacity, batch, gmode, hot_pat })
}

/// number of filler keys that brings a table created with `capacity` to `delta` below its threshold
pub fn near_threshold_filler(capacity: u32, delta: i32, hot: usize) -> u16 {
    let n = if capacity == 0 { 16 } else { ((capacity + (capacity >> 1) + 1) as usize).next_power_of_two() };
    let thr = (n - (n >> 2)) as i32;
    (thr - delta - hot as i32).max(0) as u16
}

#[derive(Clone, Copy, Debug, PartialEq, Eq)]
pub enum Mix {
    /// C01: every single-key operation
    PerKey,
    /// C08: dominated by compute_if_present
    Compute,
    /// C13: one retain / retain_force thread plus writers
    Retain,
    /// C10: inserts / reserves around the resize threshold
    Resize,
    /// C07 / C03 / C12: iterations and lookups next to writers, clears allowed
    Readers,
    /// C07: full iterations while other threads push the table over its resize threshold
    IterResize,
    /// a 64/128-bin table at its threshold, two or more threads inserting fresh keys (several
    /// threads take part in one resize) while others update / remove / read present keys that sit in
    /// bins all over the table: helpers joining through every path (explored with sampled
    /// three-preemption schedules over the control words)
    Helpers,
    /// a tree bin in a 64-bin table at its threshold whose keys go to the low half, the high half
    /// or both when the table is split, with readers inside the tree while it migrates
    TreeMove,
    /// writers next to retain / compute_if_present calls whose callbacks panic (C18 under concurrency)
    Panics,
    /// a crowded list bin that one thread extends (-> treeify) while another drains it with
    /// retain / retain_force / removes: opens the windows around late treeification
    Drain,
    /// many threads (4-8) inserting many distinct keys into a tiny table: several resize
    /// generations with helpers arriving at arbitrary moments (explored with random tapes)
    Long,
    /// 4-6 threads x 6-12 mixed per-key operations (and optionally iterations / retain_force) over
    /// ~24 keys on a tiny table: resizes, tree conversions and removals interleave freely
    LongMixed,
    /// as LongMixed plus full iterations, retain / retain_force, clear and len
    LongReaders,
    /// many threads (up to 129) with one operation each on one crowded bin, plus one writer
    Crowd,
    /// the first operations on a map that has no table yet, racing each other (lazy initialisation
    /// against `reserve`, inserts, lookups, clear, traversals)
    FirstOps,
}

fn key_strategy(hot: u16) -> BoxedStrategy<u16> {
    // biased to the first one to three keys (the head of a crowded bin is key 0) and to the last two
    // of the universe (in the crowded-bin shapes these are the keys that are not yet present)
    let h = hot.max(1);
    prop_oneof![5 => 0u16..h.min(3), 3 => h.saturating_sub(2)..h, 2 => 0u16..h].boxed()
}

/// kinds of full traversal: iter / keys / values, serialisation (JSON or length-trusting format,
/// of the map or of a pinned reference), Debug (of the map or of a pinned reference)
pub fn iter_kind() -> BoxedStrategy<u8> {
    prop_oneof![6 => 0u8..3, 2 => 3u8..7, 2 => 7u8..9].boxed()
}

pub fn cop_strategy(mix: Mix, hot: u16) -> BoxedStrategy<COp> {
    let k = key_strategy(hot);
    let act = prop_oneof![3 => Just(Act::Inc), 1 => Just(Act::Set), 2 => Just(Act::Remove)].boxed();
    match mix {
        Mix::PerKey => prop_oneof![
            4 => k.clone().prop_map(COp::Get),
            1 => k.clone().prop_map(COp::GetKV),
            1 => k.clone().prop_map(COp::Contains),
            6 => k.clone().prop_map(COp::Insert),
            2 => k.clone().prop_map(COp::TryInsert),
            4 => k.clone().prop_map(COp::Remove),
            1 => k.clone().prop_map(COp::RemoveEntry),
            3 => (k.clone(), act).prop_map(|(k, a)| COp::Compute(k, a)),
        ]
        .boxed(),
        Mix::Compute => prop_oneof![
            10 => (k.clone(), act).prop_map(|(k, a)| COp::Compute(k, a)),
            2 => k.clone().prop_map(COp::Get),
            3 => k.clone().prop_map(COp::Insert),
            1 => k.clone().prop_map(COp::TryInsert),
            2 => k.clone().prop_map(COp::Remove),
        ]
        .boxed(),
        Mix::Retain => prop_oneof![
            5 => k.clone().prop_map(COp::Insert),
            2 => k.clone().prop_map(COp::Remove),
            2 => (k.clone(), act).prop_map(|(k, a)| COp::Compute(k, a)),
            1 => k.clone().prop_map(COp::Get),
        ]
        .boxed(),
        Mix::Resize => prop_oneof![
            8 => (0u16..40).prop_map(COp::Insert),
            2 => k.clone().prop_map(COp::Remove),
            1 => (0u16..3).prop_map(|t| COp::RetainForce(Pred::KeyLess(t * 1024 + 1))),
            1 => (2u8..4, 0u8..3).prop_map(|(m, r)| COp::RetainForce(Pred::KeyMod(m, r))),
            1 => k.clone().prop_map(COp::Get),
            1 => (1u16..80).prop_map(COp::Reserve),
            1 => (k.clone(), act).prop_map(|(k, a)| COp::Compute(k, a)),
            1 => (prop_oneof![0u16..4, 16u16..40], prop_oneof![Just(0u8), 1u8..8, 8u8..30]).prop_map(|(f, n)| COp::Extend(f, n)),
        ]
        .boxed(),
        Mix::Long => (16u16..200).prop_map(COp::Insert).boxed(),
        Mix::Panics => prop_oneof![
            4 => (crate::model::pred_strategy(), any::<bool>(), 0u8..6).prop_map(|(pred, force, at)| COp::RetainPanic { pred, force, at }),
            3 => k.clone().prop_map(COp::ComputePanic),
            5 => k.clone().prop_map(COp::Insert),
            2 => (0u16..40).prop_map(COp::Insert),
            3 => k.clone().prop_map(COp::Remove),
            2 => (k.clone(), act.clone()).prop_map(|(k, a)| COp::Compute(k, a)),
            1 => k.clone().prop_map(COp::Get),
        ]
        .boxed(),
        Mix::Helpers => {
            let present = (16u16..40).boxed();
            prop_oneof![
                4 => present.clone().prop_map(COp::Remove),
                1 => present.clone().prop_map(COp::RemoveEntry),
                3 => (present.clone(), act.clone()).prop_map(|(k, a)| COp::Compute(k, a)),
                2 => present.clone().prop_map(COp::Get),
                2 => present.clone().prop_map(COp::Insert),
                1 => present.clone().prop_map(COp::TryInsert),
                3 => (40u16..60).prop_map(COp::Insert),
            ]
            .boxed()
        }
        Mix::TreeMove => prop_oneof![
            4 => k.clone().prop_map(COp::Get),
            1 => k.clone().prop_map(COp::GetKV),
            1 => k.clone().prop_map(COp::Contains),
            2 => iter_kind().prop_map(COp::IterAll),
            3 => k.clone().prop_map(COp::Remove),
            2 => k.clone().prop_map(COp::Insert),
            2 => (k.clone(), act.clone()).prop_map(|(k, a)| COp::Compute(k, a)),
            3 => (20u16..40).prop_map(COp::Insert),
        ]
        .boxed(),
        Mix::LongReaders => {
            let kk = prop_oneof![3 => 0u16..10, 2 => 16u16..30].boxed();
            prop_oneof![
                6 => kk.clone().prop_map(COp::Insert),
                3 => kk.clone().prop_map(COp::Remove),
                1 => (kk.clone(), act.clone()).prop_map(|(k, a)| COp::Compute(k, a)),
                1 => kk.clone().prop_map(COp::Get),
                3 => iter_kind().prop_map(COp::IterAll),
                1 => (2u8..4, 0u8..3).prop_map(|(m, r)| COp::RetainForce(Pred::KeyMod(m, r))),
                1 => (2u8..4, 0u8..3).prop_map(|(m, r)| COp::Retain(Pred::KeyMod(m, r))),
                1 => Just(COp::Len),
            ]
            .boxed()
        }
        Mix::LongMixed => {
            let kk = prop_oneof![3 => 0u16..10, 2 => 16u16..30].boxed();
            prop_oneof![
                6 => kk.clone().prop_map(COp::Insert),
                3 => kk.clone().prop_map(COp::Remove),
                2 => (kk.clone(), act.clone()).prop_map(|(k, a)| COp::Compute(k, a)),
                2 => kk.clone().prop_map(COp::Get),
                1 => kk.clone().prop_map(COp::TryInsert),
                1 => kk.clone().prop_map(COp::RemoveEntry),
            ]
            .boxed()
        }
        Mix::Drain => prop_oneof![
            3 => k.clone().prop_map(COp::Remove),
            1 => (k.clone(), Just(Act::Remove)).prop_map(|(k, a)| COp::Compute(k, a)),
            1 => k.clone().prop_map(COp::Get),
            1 => iter_kind().prop_map(COp::IterAll),
        ]
        .boxed(),
        Mix::IterResize => prop_oneof![
            5 => iter_kind().prop_map(COp::IterAll),
            8 => (0u16..40).prop_map(COp::Insert),
            1 => k.clone().prop_map(COp::Remove),
            1 => (1u16..80).prop_map(COp::Reserve),
        ]
        .boxed(),
        Mix::FirstOps => prop_oneof![
            6 => prop_oneof![3 => 0u16..4, 2 => 16u16..40].prop_map(COp::Insert),
            1 => (0u16..4).prop_map(COp::TryInsert),
            4 => prop_oneof![Just(1u16), Just(2u16), Just(11u16), Just(12u16), Just(13u16), Just(24u16), Just(100u16), 1u16..200].prop_map(COp::Reserve),
            1 => (0u16..4).prop_map(COp::Get),
            1 => (0u16..4).prop_map(COp::Remove),
            1 => ((0u16..4), act.clone()).prop_map(|(k, a)| COp::Compute(k, a)),
            1 => iter_kind().prop_map(COp::IterAll),
            1 => Just(COp::Clear),
            1 => Just(COp::Len),
            2 => (prop_oneof![0u16..4, 16u16..40], prop_oneof![Just(0u8), Just(1u8), 2u8..8, 8u8..30]).prop_map(|(f, n)| COp::Extend(f, n)),
            1 => (0u16..3).prop_map(|t| COp::RetainForce(Pred::KeyLess(t * 1024 + 1))),
            1 => (2u8..4, 0u8..3).prop_map(|(m, r)| COp::RetainForce(Pred::KeyMod(m, r))),
            1 => (2u8..4, 0u8..3).prop_map(|(m, r)| COp::Retain(Pred::KeyMod(m, r))),
        ]
        .boxed(),
        Mix::Crowd => prop_oneof![
            5 => k.clone().prop_map(COp::Insert),
            4 => k.clone().prop_map(COp::Remove),
            2 => (k.clone(), act.clone()).prop_map(|(k, a)| COp::Compute(k, a)),
            1 => k.clone().prop_map(COp::Get),
        ]
        .boxed(),
        Mix::Readers => prop_oneof![
            4 => k.clone().prop_map(COp::Insert),
            3 => k.clone().prop_map(COp::Remove),
            1 => (k.clone(), act).prop_map(|(k, a)| COp::Compute(k, a)),
            2 => k.clone().prop_map(COp::Get),
            3 => iter_kind().prop_map(COp::IterAll),
            1 => Just(COp::Clear),
            1 => Just(COp::Len),
            1 => (prop_oneof![0u16..4, 16u16..40], prop_oneof![Just(0u8), 1u8..8, 8u8..30]).prop_map(|(f, n)| COp::Extend(f, n)),
        ]
        .boxed(),
    }
}

/// shapes of the initial state in which the interesting mechanisms fire
#[derive(Clone, Copy, Debug)]
pub enum Shape0 {
    Empty,
    /// `delta` entries below the resize threshold of the initial table
    NearThreshold(i32),
    /// hot bin holds `n` entries (7/8: about to treeify; 9..: tree bin)
    HotBin(u16),
    /// few random hot keys
    Some,
    /// a tree bin of `n` hot keys in a 64-bin table that is `delta` entries below its threshold
    TreeNearThreshold(u16, i32),
}

fn drain_prog_strategy(max_threads: usize) -> BoxedStrategy<Prog> {
    let pred = prop_oneof![3 => (0u16..3).prop_map(|t| Pred::KeyLess(t * 1024 + 1)), 1 => Just(Pred::False), 1 => (2u8..5, 0u8..5).prop_map(|(m, r)| Pred::KeyMod(m, r))];
    let drainer = (pred, any::<bool>(), cop_strategy(Mix::Drain, 3)).prop_map(|(p, force, tail)| vec![if force { COp::RetainForce(p) } else { COp::Retain(p) }, tail]);
    let inserter = (8u16..12, proptest::option::of(cop_strategy(Mix::Drain, 3))).prop_map(|(k, extra)| {
        let mut v = vec![COp::Insert(k)];
        v.extend(extra);
        v
    });
    let third = proptest::option::of(proptest::collection::vec(cop_strategy(Mix::Drain, 9), 1..3));
    (ccfg_strategy(), prop_oneof![Just(7u16), Just(8u16), Just(8u16)], inserter, drainer, third)
        .prop_map(move |(mut cfg, n, a, b, c)| {
            if cfg.capacity < 43 {
                cfg.capacity = 43;
            }
            if matches!(cfg.hmode, HMode::Mix) {
                cfg.hmode = HMode::Identity;
            }
            let mut threads = vec![a, b];
            if let (Some(c), true) = (c, max_threads >= 3) {
                threads.push(c);
            }
            Prog { cfg, filler: 0, hot_init: (0..n).collect(), threads }
        })
        .boxed()
}

fn long_prog_strategy(max_threads: usize, max_ops: usize) -> BoxedStrategy<Prog> {
    let hm = prop_oneof![4 => Just(HMode::Mix), 2 => Just(HMode::Identity), 1 => Just(HMode::SameBin), 1 => Just(HMode::Mod4)];
    (hm, prop_oneof![Just(0u32), Just(1u32), Just(5u32)], 4usize..=max_threads.max(4), (max_ops / 2).max(2)..=max_ops.max(2), prop_oneof![Just(1u32), Just(8u32), Just(120u32)], any::<u8>())
        .prop_map(|(hmode, capacity, nthreads, per, batch, extra)| {
            let mut threads = Vec::new();
            for t in 0..nthreads {
                let mut ops: Vec<COp> = (0..per).map(|j| COp::Insert(16 + (t * per + j) as u16)).collect();
                // a few lookups / removals of other threads' keys keep helpers arriving through
                // every path (forwarded bins met by remove / compute / get)
                if extra as usize % (t + 2) == 0 {
                    ops.insert(per / 2, COp::Remove(16 + (((t + 1) % nthreads) * per) as u16));
                }
                if extra as usize % (t + 3) == 0 {
                    ops.insert(per / 3, COp::Get(16 + (((t + 2) % nthreads) * per + 1) as u16));
                }
                threads.push(ops);
            }
            Prog { cfg: CCfg { hmode, capacity, batch, gmode: GuardMode::PerOp, hot_pat: 0 }, filler: 0, hot_init: vec![], threads }
        })
        .boxed()
}

fn helpers_prog_strategy(max_threads: usize) -> BoxedStrategy<Prog> {
    let hm = prop_oneof![3 => Just(HMode::Identity), 2 => Just(HMode::Mix)];
    let present = proptest::collection::btree_set(16u16..40, 6..14);
    let inserter = (proptest::collection::vec((40u16..60).prop_map(COp::Insert), 1..3), proptest::option::of(cop_strategy(Mix::Helpers, 0))).prop_map(|(mut v, e)| {
        v.extend(e);
        v
    });
    let victim = proptest::collection::vec(cop_strategy(Mix::Helpers, 0), 1..4);
    let extra = proptest::option::of(proptest::collection::vec(cop_strategy(Mix::Helpers, 0), 1..3));
    (
        (hm, prop_oneof![3 => Just(42u32), 1 => Just(85u32)], prop_oneof![Just(1u32), Just(8u32), Just(120u32)], prop_oneof![Just(GuardMode::PerOp), Just(GuardMode::PerThread), Just(GuardMode::Pin)]),
        present,
        0i32..3,
        (inserter.clone(), inserter, victim, extra),
        any::<u8>(),
    )
        .prop_map(move |((hmode, capacity, batch, gmode), present, delta, (a, b, c, d), order)| {
            let hot_init: Vec<u16> = present.into_iter().collect();
            let filler = near_threshold_filler(capacity, delta, hot_init.len());
            let mut threads = vec![a, b, c];
            if let (Some(d), true) = (d, max_threads >= 4) {
                threads.push(d);
            }
            // the base (run-to-completion) order decides who initiates the resize: rotate it
            let r = order as usize % threads.len();
            threads.rotate_left(r);
            Prog { cfg: CCfg { hmode, capacity, batch, gmode, hot_pat: 0 }, filler, hot_init, threads }
        })
        .boxed()
}

fn treemove_prog_strategy(max_threads: usize) -> BoxedStrategy<Prog> {
    let hm = prop_oneof![5 => Just(HMode::Identity), 1 => Just(HMode::ConstMax), 1 => Just(HMode::SameBin)];
    let pat = prop_oneof![2 => Just(0u8), 3 => Just(1u8), 2 => Just(2u8), 2 => Just(3u8)];
    let reader_op = |hot: u16| {
        let k = key_strategy(hot);
        prop_oneof![4 => k.clone().prop_map(COp::Get), 1 => k.clone().prop_map(COp::GetKV), 1 => k.prop_map(COp::Contains), 1 => iter_kind().prop_map(COp::IterAll)].boxed()
    };
    (hm, pat, 9u16..13, 0i32..3, prop_oneof![Just(1u32), Just(8u32), Just(120u32)], prop_oneof![Just(GuardMode::PerOp), Just(GuardMode::PerThread), Just(GuardMode::Pin)], any::<u8>())
        .prop_flat_map(move |(hmode, hot_pat, n, delta, batch, gmode, order)| {
            let hot = (n + 2).min(14);
            let reader = (proptest::collection::vec(reader_op(hot), 1..3), proptest::collection::vec(cop_strategy(Mix::TreeMove, hot), 0..2)).prop_map(|(mut a, b)| {
                a.extend(b);
                a
            });
            let resizer = (proptest::collection::vec((20u16..40).prop_map(COp::Insert), 1..4), proptest::collection::vec(cop_strategy(Mix::TreeMove, hot), 0..2)).prop_map(|(mut a, b)| {
                a.extend(b);
                a
            });
            let third = proptest::option::of(proptest::collection::vec(cop_strategy(Mix::TreeMove, hot), 1..3));
            (reader, resizer, third).prop_map(move |(a, b, c)| {
                let mut threads = vec![a, b];
                if let (Some(c), true) = (c, max_threads >= 3) {
                    threads.push(c);
                }
                let r = order as usize % threads.len();
                threads.rotate_left(r);
                Prog { cfg: CCfg { hmode, capacity: 43, batch, gmode, hot_pat }, filler: near_threshold_filler(43, delta, n as usize), hot_init: (0..n).collect(), threads }
            })
        })
        .boxed()
}

/// numbers of simultaneously registered threads around the powers of two (counts kept in a few
/// bits of a shared word, queues of waiters) plus small ones
pub const CROWD_SIZES: [u16; 20] = [1, 2, 3, 4, 7, 8, 9, 15, 16, 17, 31, 32, 33, 63, 64, 65, 96, 127, 128, 129];

/// `size` threads with one operation each on the keys of one crowded bin (a tree bin of 9-14 keys,
/// or a list bin) -- mostly lookups, or mostly updates -- followed by one writer with 1-3 operations
/// on the same bin
fn crowd_prog_strategy() -> BoxedStrategy<Prog> {
    let hm = prop_oneof![3 => Just(HMode::Identity), 1 => Just(HMode::SameBin), 1 => Just(HMode::Const0)];
    let n = prop_oneof![6 => 9u16..15, 1 => Just(3u16), 1 => Just(7u16)];
    (hm, n, proptest::sample::select(CROWD_SIZES.to_vec()), prop_oneof![Just(GuardMode::PerOp), Just(GuardMode::PerThread), Just(GuardMode::Pin)], 0u8..4, any::<bool>()).prop_flat_map(|(hmode, n, size, gmode, kind, big)| {
        // under the all-colliding hashers every key shares the bin: trees of 39-44 nodes, in which a
        // linear walk costs more comparisons than the logarithmic bound allows
        let n = if big && hmode != HMode::Identity && n >= 9 { n + 30 } else { n };
        let hot = n + 2;
        let read = {
            let k = key_strategy(hot);
            prop_oneof![5 => k.clone().prop_map(COp::Get), 1 => k.clone().prop_map(COp::GetKV), 1 => k.prop_map(COp::Contains)].boxed()
        };
        let write = cop_strategy(Mix::Crowd, hot);
        // kind 0: all lookups; 1: lookups with a few updates among them; 2: mostly updates;
        // 3: lookups only, the last thread included (the cost of a lookup among other readers)
        let member = match kind {
            0 | 3 => read.clone(),
            1 => prop_oneof![9 => read.clone(), 1 => write.clone()].boxed(),
            _ => prop_oneof![1 => read.clone(), 3 => write.clone()].boxed(),
        };
        let tail = if kind == 3 { proptest::collection::vec(read.clone(), 1..4).boxed() } else { proptest::collection::vec(cop_strategy(Mix::Crowd, hot), 1..4).boxed() };
        (proptest::collection::vec(member, size as usize), tail).prop_map(move |(members, tail)| {
            let mut threads: Vec<Vec<COp>> = members.into_iter().map(|o| vec![o]).collect();
            threads.push(tail);
            Prog { cfg: CCfg { hmode, capacity: 43, batch: 8, gmode, hot_pat: 1 }, filler: 4, hot_init: (0..n).collect(), threads }
        })
    })
    .boxed()
}

/// an unallocated map (capacity 0, nothing inserted) and 2-4 threads whose very first operations
/// race; some threads go on to fill the table past its first thresholds
fn firstops_prog_strategy(max_threads: usize) -> BoxedStrategy<Prog> {
    let hm = prop_oneof![4 => Just(HMode::Identity), 2 => Just(HMode::Mix), 1 => Just(HMode::SameBin), 1 => Just(HMode::Const0), 3 => Just(HMode::Shift4)];
    let thread = prop_oneof![
        4 => proptest::collection::vec(cop_strategy(Mix::FirstOps, 0), 1..3),
        // a thread that fills the default table past its threshold (12) after its first operation
        1 => (cop_strategy(Mix::FirstOps, 0), 10u16..15).prop_map(|(f, n)| {
            let mut v = vec![f];
            v.extend((0..n).map(|i| COp::Insert(16 + i)));
            v
        }),
    ];
    (hm, prop_oneof![Just(1u32), Just(8u32), Just(120u32)], prop_oneof![Just(GuardMode::PerOp), Just(GuardMode::PerThread), Just(GuardMode::Pin)], proptest::collection::vec(thread, 2..=max_threads.clamp(2, 4)))
        .prop_map(|(hmode, batch, gmode, threads)| Prog { cfg: CCfg { hmode, capacity: 0, batch, gmode, hot_pat: 0 }, filler: 0, hot_init: vec![], threads })
        .boxed()
}

pub fn prog_strategy(mix: Mix, max_threads: usize, max_ops: usize) -> BoxedStrategy<Prog> {
    if mix == Mix::FirstOps {
        return firstops_prog_strategy(max_threads);
    }
    if mix == Mix::Crowd {
        return crowd_prog_strategy();
    }
    if mix == Mix::Helpers {
        return helpers_prog_strategy(max_threads);
    }
    if mix == Mix::TreeMove {
        return treemove_prog_strategy(max_threads);
    }
    if mix == Mix::Drain {
        return drain_prog_strategy(max_threads);
    }
    if mix == Mix::Long {
        return long_prog_strategy(max_threads, max_ops);
    }
    if mix == Mix::LongMixed || mix == Mix::LongReaders {
        let hm = prop_oneof![3 => Just(HMode::Identity), 2 => Just(HMode::Mix), 2 => Just(HMode::SameBin), 1 => Just(HMode::Const0), 1 => Just(HMode::Mod4), 2 => Just(HMode::Shift4)];
        let mo = max_ops.max(6);
        return (hm, prop_oneof![Just(0u32), Just(1u32), Just(5u32), Just(20u32), Just(43u32)], prop_oneof![Just(1u32), Just(2u32), Just(8u32)], prop_oneof![Just(GuardMode::PerOp), Just(GuardMode::PerThread), Just(GuardMode::Pin)], 0u16..14, proptest::collection::vec(0u16..10, 0..9))
            .prop_flat_map(move |(hmode, capacity, batch, gmode, filler, hot)| {
                let mut hot_init = hot.clone();
                hot_init.sort();
                hot_init.dedup();
                let cfg = CCfg { hmode, capacity, batch, gmode, hot_pat: 0 };
                let thread = proptest::collection::vec(cop_strategy(mix, 10), mo / 2..=mo);
                proptest::collection::vec(thread, 4..=max_threads.max(4)).prop_map(move |threads| Prog { cfg: cfg.clone(), filler, hot_init: hot_init.clone(), threads })
            })
            .boxed();
    }
    prog_strategy_general(mix, max_threads, max_ops).boxed()
}

fn prog_strategy_general(mix: Mix, max_threads: usize, max_ops: usize) -> impl Strategy<Value = Prog> {
    let shape = prop_oneof![
        1 => Just(Shape0::Empty),
        4 => (0i32..3).prop_map(Shape0::NearThreshold),
        2 => Just(Shape0::HotBin(7)),
        2 => Just(Shape0::HotBin(8)),
        2 => (9u16..13).prop_map(Shape0::HotBin),
        2 => Just(Shape0::Some),
        3 => (9u16..12, 0i32..3).prop_map(|(n, d)| Shape0::TreeNearThreshold(n, d)),
    ];
    (ccfg_strategy(), shape, 2usize..=max_threads, proptest::collection::vec(0u16..12, 0..6)).prop_flat_map(move |(mut cfg, shape, nthreads, some)| {
        let (filler, hot_init, hot): (u16, Vec<u16>, u16) = match shape {
            Shape0::Empty => (0, vec![], 4),
            Shape0::NearThreshold(d) => {
                let mut h = some.clone();
                h.sort();
                h.dedup();
                h.truncate(2);
                (near_threshold_filler(cfg.capacity, d, h.len()), h, 6)
            }
            Shape0::HotBin(n) => {
                // a tree needs a table of at least 64 bins
                if cfg.capacity < 43 {
                    cfg.capacity = 43;
                }
                (0, (0..n).collect(), (n + 2).min(14))
            }
            Shape0::Some => {
                let mut h = some.clone();
                h.sort();
                h.dedup();
                (0, h, 8)
            }
            Shape0::TreeNearThreshold(n, d) => {
                cfg.capacity = 43;
                (near_threshold_filler(43, d, n as usize), (0..n).collect(), (n + 2).min(14))
            }
        };
        let cfg2 = cfg.clone();
        let thread = proptest::collection::vec(cop_strategy(mix, hot), 1..=max_ops);
        let threads = proptest::collection::vec(thread, nthreads..=nthreads);
        let retain_thread = (crate::model::pred_strategy(), any::<bool>()).prop_map(|(p, f)| if f { COp::RetainForce(p) } else { COp::Retain(p) });
        (threads, retain_thread).prop_map(move |(mut threads, rt)| {
            if mix == Mix::Retain {
                threads[0] = vec![rt];
            }
            Prog { cfg: cfg2.clone(), filler, hot_init: hot_init.clone(), threads }
        })
    })
}

/* ------------------------------- exploration ------------------------------- */

#[derive(Clone, Debug, Serialize, Deserialize)]
pub struct Budget {
    /// maximum number of single-preemption schedules (evenly sampled beyond that)
    pub single: usize,
    /// maximum number of two-preemption schedules
    pub double: usize,
    /// maximum number of two-preemption schedules over coarse points only (explored first)
    pub coarse2: usize,
    /// number of random sparse-preemption tapes
    pub tapes: usize,
    pub tape_seed: u64,
    /// number of sampled three-preemption schedules whose preemption points are accesses to the
    /// map's control words (the resize election / counting protocol)
    pub triple: usize,
    /// > 0: explore with staggered waves instead (crowd programs: every thread but the last runs
    /// d steps into its operation and is parked there, then the last thread runs), at most this
    /// many schedules
    #[serde(default)]
    pub stagger: usize,
}

#[derive(Clone, Debug, Serialize, Deserialize)]
pub struct SchedDesc {
    pub switches: Vec<(u64, u8)>,
}

pub struct Explored {
    pub schedules: u64,
    pub steps: u64,
    /// Some((schedule that failed, property, message))
    pub failure: Option<(SchedDesc, String, String)>,
    pub nontrivial_schedules: Vec<u64>,
    pub classes: BTreeMap<&'static str, u64>,
}

/// coarse preemption points: operation boundaries and the first step after a bin lock was released
fn coarse(t: &TraceEnt) -> bool {
    t.after_unlock || matches!(t.kind, Kind::OpStart)
}

fn interesting(t: &TraceEnt) -> bool {
    t.after_unlock || matches!(t.kind, Kind::Lock | Kind::Store | Kind::Rmw | Kind::Cas | Kind::Park | Kind::OpStart)
}

fn sched_hash(sw: &[(u64, u8)]) -> u64 {
    let mut h = 0x1234_5678_9abc_def0u64;
    for (s, t) in sw {
        h = crate::runner::splitmix(h ^ s.wrapping_mul(31).wrapping_add(*t as u64));
    }
    h
}

/// Result of judging one execution: Err((property, message)) or Ok(non-trivial?, classes)
pub type Judge<'a> = &'a dyn Fn(&Prog, &ConcOut) -> Result<(bool, Vec<(&'static str, u64)>), (String, String)>;

/// bounded systematic exploration of the schedules of one program
pub fn explore(pool: &Pool, prog: &Prog, budget: &Budget, opts: &ExecOpts, mk_probe: Option<ProbeMaker<'_>>, judge: Judge<'_>) -> Explored {
    let mut ex = Explored { schedules: 0, steps: 0, failure: None, nontrivial_schedules: Vec::new(), classes: BTreeMap::new() };
    let run_one = |ex: &mut Explored, switches: Vec<(u64, u8)>, random: Option<(u64, u32)>, trace: bool| -> Option<ConcOut> {
        if std::env::var_os("FVH_TRACE_SCHED").is_some() {
            eprintln!("schedule {:?} random {:?}", switches, random);
        }
        let spec = SchedSpec { switches: switches.clone(), random, record_trace: trace, probe: mk_probe, ..Default::default() };
        let out = exec(pool, prog, spec, opts, None);
        ex.schedules += 1;
        ex.steps += out.steps;
        match judge(prog, &out) {
            Ok((nt, classes)) => {
                if nt {
                    ex.nontrivial_schedules.push(sched_hash(&out.performed));
                }
                for (c, n) in classes {
                    *ex.classes.entry(c).or_insert(0) += n;
                }
                Some(out)
            }
            Err((prop, msg)) => {
                ex.failure = Some((SchedDesc { switches: out.performed.clone() }, prop, msg));
                None
            }
        }
    };
    if budget.stagger > 0 {
        return explore_staggered(pool, prog, budget, opts, judge);
    }
    // 0 preemptions
    let base = match run_one(&mut ex, vec![], None, true) {
        Some(b) => b,
        None => return ex,
    };
    let n = prog.threads.len();
    // last step of each thread in the base run (a finished thread cannot be switched to)
    let mut last_step = vec![0u64; n];
    for t in &base.trace {
        last_step[t.thread as usize] = t.step;
    }
    let mut first_step = vec![u64::MAX; n];
    for t in &base.trace {
        let f = &mut first_step[t.thread as usize];
        if *f == u64::MAX {
            *f = t.step;
        }
    }
    // 1 preemption: every step x every other thread that is not yet finished
    let mut singles: Vec<(u64, u8)> = Vec::new();
    for t in &base.trace {
        for u in 0..n {
            if u as u8 != t.thread && (first_step[u] == u64::MAX || first_step[u] > t.step || last_step[u] > t.step) {
                singles.push((t.step, u as u8));
            }
        }
    }
    // coarse x coarse two-preemption schedules first: few points, and the ones at which the
    // windows between "lock released" and "follow-up action" (treeify, add_count, ...) open
    let mut coarse_budget = budget.coarse2;
    let coarse_singles: Vec<(u64, u8)> = singles.iter().copied().filter(|(s, _)| base.trace.iter().find(|t| t.step == *s).map_or(false, coarse)).collect();
    'outer: for (s, u) in &coarse_singles {
        if coarse_budget == 0 {
            break;
        }
        let out = match run_one(&mut ex, vec![(*s, *u)], None, true) {
            Some(o) => o,
            None => return ex,
        };
        for t in out.trace.iter().filter(|t| t.step > *s && coarse(t)) {
            for v in 0..n as u8 {
                if v == t.thread {
                    continue;
                }
                if coarse_budget == 0 {
                    break 'outer;
                }
                coarse_budget -= 1;
                if run_one(&mut ex, vec![(*s, *u), (t.step, v)], None, false).is_none() {
                    return ex;
                }
            }
        }
    }
    let stride = (singles.len() / budget.single.max(1)).max(1);
    let singles: Vec<(u64, u8)> = if singles.len() > budget.single { singles.iter().copied().step_by(stride).collect() } else { singles };
    let mut double_budget = budget.double;
    for (idx, (s, u)) in singles.iter().enumerate() {
        // record the trace only where a second preemption will be added
        let want_second = double_budget > 0 && base.trace.iter().find(|t| t.step == *s).map_or(false, interesting) && idx % 2 == 0;
        let out = match run_one(&mut ex, vec![(*s, *u)], None, want_second) {
            Some(o) => o,
            None => return ex,
        };
        if want_second {
            let cands: Vec<(u64, u8)> = out.trace.iter().filter(|t| t.step > *s && interesting(t)).flat_map(|t| (0..n as u8).filter(move |v| *v != t.thread).map(move |v| (t.step, v))).collect();
            let per = (budget.double / (singles.len() / 2).max(1)).max(1);
            let st = (cands.len() / per.max(1)).max(1);
            for (s2, v) in cands.iter().step_by(st).take(per) {
                if double_budget == 0 {
                    break;
                }
                double_budget -= 1;
                if run_one(&mut ex, vec![(*s, *u), (*s2, *v)], None, false).is_none() {
                    return ex;
                }
            }
        }
    }
    // sampled three-preemption schedules over the control-word accesses: each level is chosen from
    // the trace of the execution one level up, so the points exist in the schedule they extend
    let mut rng = crate::runner::splitmix(budget.tape_seed ^ 0x7a11_c0de);
    let ctl_cands = |out: &ConcOut, after: u64| -> Vec<(u64, u8)> {
        let mut last = vec![0u64; n];
        for t in &out.trace {
            last[t.thread as usize] = t.step;
        }
        let mut started = vec![false; n];
        let mut v = Vec::new();
        for t in &out.trace {
            started[t.thread as usize] = true;
            if t.step > after && t.addr >= out.map_range.0 && t.addr < out.map_range.1 {
                for u in 0..n {
                    if u as u8 != t.thread && (!started[u] || last[u] > t.step) {
                        v.push((t.step, u as u8));
                    }
                }
            }
        }
        v
    };
    for _ in 0..budget.triple {
        let mut sw: Vec<(u64, u8)> = Vec::new();
        let mut cur: Option<ConcOut> = None;
        for level in 0..3 {
            let cands = ctl_cands(cur.as_ref().unwrap_or(&base), sw.last().map_or(0, |x| x.0));
            if cands.is_empty() {
                break;
            }
            rng = crate::runner::splitmix(rng);
            sw.push(cands[(rng % cands.len() as u64) as usize]);
            match run_one(&mut ex, sw.clone(), None, level < 2) {
                Some(o) => cur = Some(o),
                None => return ex,
            }
        }
    }
    // random sparse-preemption tapes
    for i in 0..budget.tapes {
        let seed = crate::runner::splitmix(budget.tape_seed ^ (i as u64 + 1));
        let gap = [3u32, 8, 20, 60][i % 4];
        if run_one(&mut ex, vec![], Some((seed, gap)), false).is_none() {
            return ex;
        }
    }
    ex
}

/// Exploration of crowd programs: the members (every thread but the last) are driven `d` steps
/// into their operation one after the other and left there, then the last thread runs; when it
/// blocks or finishes the members resume in turn.  All `d` up to the longest member operation;
/// for each of them a second round in which the last thread is itself preempted at one of up to
/// six evenly spaced points (the members then resume while it is inside its critical section);
/// and waves with a generated depth per member.
fn explore_staggered(pool: &Pool, prog: &Prog, budget: &Budget, opts: &ExecOpts, judge: Judge<'_>) -> Explored {
    let mut ex = Explored { schedules: 0, steps: 0, failure: None, nontrivial_schedules: Vec::new(), classes: BTreeMap::new() };
    let mut left = budget.stagger;
    let run_one = |ex: &mut Explored, relative: Vec<(u8, u64, u8)>, trace: bool| -> Option<ConcOut> {
        if std::env::var_os("FVH_TRACE_SCHED").is_some() {
            eprintln!("relative schedule {:?}", relative);
        }
        let spec = SchedSpec { relative, record_trace: trace, ..Default::default() };
        let out = exec(pool, prog, spec, opts, None);
        ex.schedules += 1;
        ex.steps += out.steps;
        match judge(prog, &out) {
            Ok((nt, classes)) => {
                if nt {
                    ex.nontrivial_schedules.push(sched_hash(&out.performed));
                }
                for (c, n) in classes {
                    *ex.classes.entry(c).or_insert(0) += n;
                }
                Some(out)
            }
            Err((prop, msg)) => {
                ex.failure = Some((SchedDesc { switches: out.performed.clone() }, prop, msg));
                None
            }
        }
    };
    let base = match run_one(&mut ex, vec![], true) {
        Some(b) => b,
        None => return ex,
    };
    let n = prog.threads.len();
    if n < 2 {
        return ex;
    }
    let members = n - 1;
    let mut len = vec![0u64; n];
    for t in &base.trace {
        len[t.thread as usize] += 1;
    }
    let dmax = len[..members].iter().copied().max().unwrap_or(1).min(48);
    let tail_len = len[members].max(1);
    let wave = |d: &dyn Fn(usize) -> u64| -> Vec<(u8, u64, u8)> { (0..members).filter(|t| d(*t) > 0).map(|t| (t as u8, d(t), (t + 1) as u8)).collect() };
    // a member that is not preempted (depth 0 or beyond its length) runs to completion and hands
    // over to the next thread by itself
    for d in 1..=dmax {
        if left == 0 {
            return ex;
        }
        left -= 1;
        if run_one(&mut ex, wave(&|_| d), false).is_none() {
            return ex;
        }
    }
    let points: Vec<u64> = (1..=6u64).map(|i| (tail_len * i / 7).max(1)).collect::<std::collections::BTreeSet<_>>().into_iter().collect();
    for d in 1..=dmax {
        for w in &points {
            if left == 0 {
                return ex;
            }
            left -= 1;
            let mut r = wave(&|_| d);
            r.push((members as u8, *w, 0));
            if run_one(&mut ex, r, false).is_none() {
                return ex;
            }
        }
    }
    let mut rng = crate::runner::splitmix(budget.tape_seed ^ 0xc0_07d);
    while left > 0 {
        left -= 1;
        let depths: Vec<u64> = (0..members)
            .map(|t| {
                rng = crate::runner::splitmix(rng);
                rng % (len[t] + 2)
            })
            .collect();
        rng = crate::runner::splitmix(rng);
        let mut r = wave(&|t| depths[t]);
        if rng % 2 == 0 {
            r.push((members as u8, 1 + (rng >> 8) % tail_len, 0));
        }
        if run_one(&mut ex, r, false).is_none() {
            return ex;
        }
    }
    ex
}

/// drop switches that are not needed for the failure
pub fn minimize_schedule(pool: &Pool, prog: &Prog, sched: &SchedDesc, opts: &ExecOpts, mk_probe: Option<ProbeMaker<'_>>, judge: Judge<'_>) -> SchedDesc {
    let mut cur = sched.switches.clone();
    let mut i = 0;
    while i < cur.len() && cur.len() <= 64 {
        let mut cand = cur.clone();
        cand.remove(i);
        let spec = SchedSpec { switches: cand.clone(), probe: mk_probe, ..Default::default() };
        let out = exec(pool, prog, spec, opts, None);
        if judge(prog, &out).is_err() {
            cur = cand;
            i = 0;
        } else {
            i += 1;
        }
    }
    SchedDesc { switches: cur }
}
