//! Concurrent `HashSet` programs under the serialising scheduler (C01's "on a map or a set").
//! The set is a thin wrapper over `HashMap<T, ()>`, but its wrappers decide what is returned
//! (`insert -> bool`, `remove -> bool`, `take -> Option<&T>`), so a wrapper that became
//! check-then-act would only show under an interleaving.  Oracle: per-key linearizability (E3) with
//! the stored key instance (its `origin`) as the cell's value.
use crate::conc::{filler_tag, hot_tag, near_threshold_filler};
use crate::lin::{self, HEnt, HOp};
use crate::sched::{self, Body, Kind, Pool, RunSpec, Verdict, Wk};
use crate::types::*;
use proptest::prelude::*;
use serde::{Deserialize, Serialize};
use std::collections::BTreeMap;
use std::sync::{Arc, Mutex};

pub type FSet = flurry::HashSet<K, HB>;

#[derive(Clone, Copy, Debug, PartialEq, Eq, Serialize, Deserialize)]
pub enum SFacade {
    GuardPerOp,
    GuardPerThread,
    Pin,
    WithGuard,
}

#[derive(Clone, Debug, PartialEq, Eq, Serialize, Deserialize)]
pub enum SOp {
    Insert(u16),
    Remove(u16),
    Take(u16),
    Contains(u16),
    Get(u16),
    /// retain(|k| k.tag % 3 != r)
    Retain(u8),
    Reserve(u16),
    Len,
    /// full iteration: 0 `iter(&guard)`, 1 `pin().iter()`, 2 `(&pin()).into_iter()`
    IterAll(u8),
    /// `serde_json::to_string(&set)` (0) / of the pinned reference (1), parsed back
    Serialize(u8),
}

#[derive(Clone, Debug, PartialEq, Eq, Serialize, Deserialize)]
pub struct SetProg {
    pub hmode: HMode,
    pub capacity: u32,
    pub facade: SFacade,
    pub filler: u16,
    pub init: Vec<u16>,
    pub threads: Vec<Vec<SOp>>,
}

#[derive(Clone, Debug, Serialize, Deserialize)]
pub struct SetCase {
    pub prog: SetProg,
    pub schedule: Option<Vec<(u64, u8)>>,
    /// (single, double, tapes, tape seed) the case was being explored with (in-flight files)
    #[serde(default, skip_serializing_if = "Option::is_none")]
    pub budget: Option<(usize, usize, usize, u64)>,
}

pub struct SetOut {
    pub verdict: Option<Verdict>,
    pub ops: Vec<HEnt>,
    pub faults: Vec<String>,
    /// (thread, inv, resp) of every retain call
    pub retains: Vec<(u8, u64, u64)>,
    /// (thread, inv, resp, what, keys yielded) of every full traversal (iteration, serialisation)
    pub walks: Vec<(u8, u64, u64, String, Vec<u32>)>,
    pub init: BTreeMap<u32, u64>,
    pub fin: BTreeMap<u32, u64>,
    pub trace: Vec<sched::TraceEnt>,
    pub performed: Vec<(u64, u8)>,
    pub steps: u64,
    pub len_before: usize,
    pub len_after: usize,
    pub fin_len: usize,
}

fn run_thread(wk: &Wk<'_>, set: &FSet, prog: &SetProg, ops: &[SOp], recs: &mut Vec<HEnt>, faults: &mut Vec<String>, retains: &mut Vec<(u8, u64, u64)>, walks: &mut Vec<(u8, u64, u64, String, Vec<u32>)>) {
    let me = wk.me as u8;
    let tg = if prog.facade == SFacade::GuardPerThread { Some(set.guard()) } else { None };
    for op in ops {
        let og = if matches!(prog.facade, SFacade::GuardPerOp | SFacade::WithGuard) { Some(set.guard()) } else { None };
        let g = tg.as_ref().or(og.as_ref());
        let wg = prog.facade == SFacade::WithGuard;
        macro_rules! seen {
            ($k:expr, $tag:expr) => {{
                let k: &K = $k;
                if !k.intact() || k.tag != $tag {
                    faults.push(format!("C03: the set handed out a key reference that is not an intact key {} (tag {}, canary broken or already dropped)", $tag, k.tag));
                }
                k.origin as u64
            }};
        }
        match op {
            SOp::Insert(i) => {
                let tag = hot_tag(*i);
                let k = K::new(tag);
                let new = k.origin as u64;
                let inv = wk.op_start();
                let ret = match g {
                    Some(g) if wg => set.with_guard(g).insert(k),
                    Some(g) => set.insert(k, g),
                    None => set.pin().insert(k),
                };
                let resp = wk.op_end();
                recs.push(HEnt { thread: me, inv, resp, key: tag, op: HOp::SetInsert { new, ret } });
            }
            SOp::Remove(i) => {
                let tag = hot_tag(*i);
                let k = K::probe(tag);
                let inv = wk.op_start();
                let ret = match g {
                    Some(g) if wg => set.with_guard(g).remove(&k),
                    Some(g) => set.remove(&k, g),
                    None => set.pin().remove(&k),
                };
                let resp = wk.op_end();
                recs.push(HEnt { thread: me, inv, resp, key: tag, op: HOp::SetRemove { ret } });
            }
            SOp::Take(i) => {
                let tag = hot_tag(*i);
                let k = K::probe(tag);
                let inv = wk.op_start();
                let ret = match g {
                    Some(g) if wg => set.with_guard(g).take(&k).map(|x| seen!(x, tag)),
                    Some(g) => set.take(&k, g).map(|x| seen!(x, tag)),
                    None => set.pin().take(&k).map(|x| seen!(x, tag)),
                };
                let resp = wk.op_end();
                recs.push(HEnt { thread: me, inv, resp, key: tag, op: HOp::Remove { ret } });
            }
            SOp::Contains(i) => {
                let tag = hot_tag(*i);
                let k = K::probe(tag);
                let inv = wk.op_start();
                let ret = match g {
                    Some(g) if wg => set.with_guard(g).contains(&k),
                    Some(g) => set.contains(&k, g),
                    None => set.pin().contains(&k),
                };
                let resp = wk.op_end();
                recs.push(HEnt { thread: me, inv, resp, key: tag, op: HOp::Contains { ret } });
            }
            SOp::Get(i) => {
                let tag = hot_tag(*i);
                let k = K::probe(tag);
                let inv = wk.op_start();
                let ret = match g {
                    Some(g) if wg => set.with_guard(g).get(&k).map(|x| seen!(x, tag)),
                    Some(g) => set.get(&k, g).map(|x| seen!(x, tag)),
                    None => set.pin().get(&k).map(|x| seen!(x, tag)),
                };
                let resp = wk.op_end();
                recs.push(HEnt { thread: me, inv, resp, key: tag, op: HOp::Get { ret } });
            }
            SOp::Retain(r) => {
                let r = *r as u32;
                let inv = wk.op_start();
                // (tag, origin, keep, stamp of the predicate call)
                let calls: std::cell::RefCell<Vec<(u32, u64, bool, u64)>> = std::cell::RefCell::new(Vec::new());
                let f = |k: &K| {
                    let keep = k.tag % 3 != r;
                    calls.borrow_mut().push((k.tag, k.origin as u64, keep, wk.now()));
                    keep
                };
                match g {
                    Some(g) if wg => set.with_guard(g).retain(f),
                    Some(g) => set.retain(f, g),
                    None => set.pin().retain(f),
                }
                let resp = wk.op_end();
                retains.push((me, inv, resp));
                let calls = calls.into_inner();
                for (i, (tag, origin, keep, stamp)) in calls.iter().enumerate() {
                    if !*keep {
                        let end = calls.get(i + 1).map_or(resp, |c| c.3);
                        recs.push(HEnt { thread: me, inv: (*stamp).max(inv), resp: end.max(*stamp), key: *tag, op: HOp::CondRemove { v: *origin } });
                    }
                }
            }
            SOp::Reserve(n) => {
                wk.op_start();
                match g {
                    Some(g) if wg => set.with_guard(g).reserve(*n as usize),
                    Some(g) => set.reserve(*n as usize, g),
                    None => set.pin().reserve(*n as usize),
                }
                wk.op_end();
            }
            SOp::IterAll(kind) => {
                let inv = wk.op_start();
                let keys: Vec<u32> = match (kind % 3, g) {
                    (0, Some(g)) => set.iter(g).map(|k| k.tag).collect(),
                    (1, _) | (0, None) => set.pin().iter().map(|k| k.tag).collect(),
                    _ => {
                        let r = set.pin();
                        (&r).into_iter().map(|k| k.tag).collect()
                    }
                };
                let resp = wk.op_end();
                walks.push((me, inv, resp, format!("set iteration (kind {})", kind % 3), keys));
            }
            SOp::Serialize(kind) => {
                let inv = wk.op_start();
                // kinds 0 / 1: JSON text of the set / of a pinned reference; 2 / 3: the same through
                // a format that trusts the announced length
                let keys: Result<Vec<u32>, String> = if kind % 4 < 2 {
                    let js = if kind % 2 == 0 { serde_json::to_string(set) } else { serde_json::to_string(&set.pin()) };
                    js.map_err(|e| e.to_string()).and_then(|j| serde_json::from_str::<Vec<u32>>(&j).map_err(|e| format!("{} ({:?})", e, j)))
                } else {
                    let d = if kind % 2 == 0 { crate::strictser::to_doc(set) } else { crate::strictser::to_doc(&set.pin()) };
                    d.and_then(|d| d.check().map(|_| d.entries.iter().map(|e| e.0 as u32).collect()))
                };
                let resp = wk.op_end();
                match keys {
                    Ok(keys) => walks.push((me, inv, resp, format!("serialisation of the set{}", if kind % 2 == 0 { "" } else { " (pinned reference)" }), keys)),
                    Err(e) => faults.push(format!("C19: serialising the set gave a document that does not parse as a list of keys: {}", e)),
                }
            }
            SOp::Len => {
                wk.op_start();
                let l = set.len();
                wk.op_end();
                if l > 100_000 {
                    faults.push(format!("C05: len() = {} in a program that holds at most a few dozen keys", l));
                }
            }
        }
    }
}

pub fn exec(pool: &Pool, prog: &SetProg, switches: Vec<(u64, u8)>, random: Option<(u64, u32)>, trace: bool) -> SetOut {
    ledger_reset();
    set_default_hmode(prog.hmode);
    let set = FSet::with_capacity_and_hasher(prog.capacity as usize, HB(prog.hmode));
    let mut init = BTreeMap::new();
    {
        let g = set.guard();
        for j in 0..prog.filler {
            set.insert(K::new(filler_tag(j)), &g);
        }
        for i in &prog.init {
            set.insert(K::new(hot_tag(*i)), &g);
        }
        for k in set.iter(&g) {
            init.insert(k.tag, k.origin as u64);
        }
    }
    let len_before = crate::inspect::shape(&unsafe { set.verif_dump() }).table_len;
    let set = Arc::new(set);
    let slots: Vec<Arc<Mutex<(Vec<HEnt>, Vec<String>, Vec<(u8, u64, u64)>, Vec<(u8, u64, u64, String, Vec<u32>)>)>>> = (0..prog.threads.len()).map(|_| Arc::new(Mutex::new((Vec::new(), Vec::new(), Vec::new(), Vec::new())))).collect();
    let mut bodies: Vec<Body> = Vec::new();
    for (ti, ops) in prog.threads.iter().enumerate() {
        let set = set.clone();
        let prog = prog.clone();
        let ops = ops.clone();
        let slot = slots[ti].clone();
        bodies.push(Box::new(move |wk: &Wk<'_>| {
            let mut recs = Vec::new();
            let mut faults = Vec::new();
            let mut retains = Vec::new();
            let mut walks = Vec::new();
            let r = std::panic::catch_unwind(std::panic::AssertUnwindSafe(|| run_thread(wk, &set, &prog, &ops, &mut recs, &mut faults, &mut retains, &mut walks)));
            *slot.lock().unwrap() = (recs, faults, retains, walks);
            drop(set);
            if let Err(e) = r {
                std::panic::resume_unwind(e);
            }
        }));
    }
    let out = sched::run(pool, RunSpec { switches, random, record_trace: trace, step_budget: 200_000, ..Default::default() }, bodies);
    let mut ops = Vec::new();
    let mut faults = Vec::new();
    let mut retains = Vec::new();
    let mut walks = Vec::new();
    for s in &slots {
        let mut g = s.lock().unwrap();
        ops.append(&mut g.0);
        faults.append(&mut g.1);
        retains.append(&mut g.2);
        walks.append(&mut g.3);
    }
    let mut fin = BTreeMap::new();
    let mut len_after = 0;
    let mut fin_len = 0;
    if out.verdict.is_some() {
        std::mem::forget(set);
    } else {
        {
            let g = set.guard();
            for k in set.iter(&g) {
                if fin.insert(k.tag, k.origin as u64).is_some() {
                    faults.push(format!("C05: iteration at quiescence yields key {} twice", k.tag));
                }
            }
            for (t, o) in &fin {
                match set.get(&K::probe(*t), &g) {
                    Some(k) if k.origin as u64 == *o => {}
                    other => faults.push(format!("C05: at quiescence iteration yields key {} (instance {}) but get returns {:?}", t, o, other.map(|k| k.origin))),
                }
            }
            fin_len = set.len();
            if fin_len != fin.len() {
                faults.push(format!("C05: at quiescence len() = {} but iteration yields {} keys", fin_len, fin.len()));
            }
        }
        let d = unsafe { set.verif_dump() };
        len_after = crate::inspect::shape(&d).table_len;
        if let Err(e) = crate::inspect::check_quiescent(&d, prog.hmode) {
            faults.push(format!("C05: {}", e));
        }
        match Arc::try_unwrap(set) {
            Ok(s) => {
                if std::panic::catch_unwind(std::panic::AssertUnwindSafe(move || drop(s))).is_err() {
                    faults.push("C10: dropping the set after the run panicked".into());
                }
            }
            Err(s) => std::mem::forget(s),
        }
        if faults.is_empty() {
            for i in ledger_snapshot() {
                if i.drops != 1 {
                    faults.push(format!("C04: key instance (tag {}, {}) was dropped {} times by the end of the run (set dropped, all guards released)", i.ident, if i.cloned { "cloned by the map" } else { "created by the caller" }, i.drops));
                    break;
                }
            }
        }
    }
    SetOut { verdict: out.verdict, ops, faults, retains, walks, init, fin, trace: out.trace, performed: out.performed, steps: out.steps, len_before, len_after, fin_len }
}

/// Err((property, message)) or Ok(keys with overlapping writes)
pub fn judge(out: &SetOut) -> Result<u64, (String, String)> {
    match &out.verdict {
        Some(Verdict::Deadlock(m)) => return Err(("C11".into(), format!("[C11] deadlock (set): {}", m))),
        Some(Verdict::StepBudget { thread, steps }) => return Err(("C11".into(), format!("[C11] T{} executed {} steps inside one set operation without finishing it", thread, steps))),
        Some(Verdict::Panic { thread, msg }) => return Err(("C01".into(), format!("[C01] T{} panicked inside the set: {}", thread, msg))),
        Some(Verdict::Probe(m)) => return Err(("C01".into(), format!("[C01] {}", m))),
        None => {}
    }
    if let Some(f) = out.faults.first() {
        let prop = f.split(':').next().unwrap_or("C01").to_string();
        return Err((prop.clone(), format!("[{}] {}", prop, f)));
    }
    // full traversals are weakly consistent: a key that was present before the traversal began and
    // that no operation touched before it ended must be yielded exactly once; a key that was absent
    // and that nobody inserted before the traversal ended must not be yielded; nothing twice
    for (t, inv, resp, what, keys) in &out.walks {
        let mut sorted = keys.clone();
        sorted.sort();
        // (a key that was removed and inserted again while the traversal ran may legitimately be met
        // twice: two incarnations at two positions; only untouched keys must appear exactly once)
        let touched_during = |k: u32| out.ops.iter().any(|e| e.key == k && e.inv <= *resp && e.resp >= *inv && !matches!(e.op, HOp::Get { .. } | HOp::Contains { .. }));
        if let Some(w) = sorted.windows(2).find(|w| w[0] == w[1] && !touched_during(w[0])) {
            return Err(("C07".into(), format!("[C07] the {} of T{} over steps {}..{} yielded key {} twice although no operation touched that key meanwhile", what, t, inv, resp, w[0])));
        }
        let touched_before_end = |k: u32, inserts_only: bool| out.ops.iter().any(|e| e.key == k && e.inv <= *resp && (!inserts_only || matches!(e.op, HOp::SetInsert { .. })) && !matches!(e.op, HOp::Get { .. } | HOp::Contains { .. }));
        for (k, _) in &out.init {
            if !touched_before_end(*k, false) && !sorted.contains(k) {
                return Err(("C07".into(), format!("[C07] the {} of T{} over steps {}..{} did not yield key {}, which was present and untouched for its whole duration (yielded {:?})", what, t, inv, resp, k, sorted)));
            }
        }
        for k in &sorted {
            if !out.init.contains_key(k) && !touched_before_end(*k, true) {
                return Err(("C07".into(), format!("[C07] the {} of T{} over steps {}..{} yielded key {}, which was never in the set before it ended", what, t, inv, resp, k)));
            }
        }
    }
    let mut ents = out.ops.clone();
    // `retain` removes an element only if its (unit) value is still the one the traversal saw, and
    // `insert` of an element that is present replaces that unit value (C13 allows exactly this).
    // The harness cannot see unit values, so a rejection that races such an insert may or may not
    // remove; every other rejection must remove the instance it saw if it is still there.
    let inserts: Vec<(u8, u64, u64, u32)> = ents.iter().filter(|e| matches!(e.op, HOp::SetInsert { .. })).map(|e| (e.thread, e.inv, e.resp, e.key)).collect();
    for e in ents.iter_mut() {
        if let HOp::CondRemove { v } = e.op {
            let from = out.retains.iter().filter(|r| r.0 == e.thread && r.1 <= e.inv && e.inv <= r.2).map(|r| r.1).min().unwrap_or(0);
            if inserts.iter().any(|i| i.0 != e.thread && i.3 == e.key && i.1 <= e.resp && from <= i.2) {
                e.op = HOp::MaybeRemove { v };
            }
        }
    }
    if std::env::var_os("FVH_TRACE_SET").is_some() {
        for e in &ents {
            eprintln!("  {:?}", e);
        }
        eprintln!("  init {:?} fin {:?}", out.init, out.fin);
    }
    let mut keys: Vec<u32> = ents.iter().map(|e| e.key).collect();
    keys.sort();
    keys.dedup();
    let end = out.steps + 1;
    for k in keys {
        ents.push(HEnt { thread: 255, inv: end, resp: end + 1, key: k, op: HOp::Get { ret: out.fin.get(&k).copied() } });
    }
    lin::check_history(&ents, |k| out.init.get(&k).copied()).map_err(|m| ("C01".to_string(), format!("[C01] set history is not linearizable: {}", m)))
}

pub struct SetExplored {
    pub schedules: u64,
    pub failure: Option<(Vec<(u64, u8)>, String, String)>,
    pub nontrivial: Vec<u64>,
    pub classes: BTreeMap<&'static str, u64>,
}

fn sched_hash(sw: &[(u64, u8)]) -> u64 {
    let mut h = 0x0bad_5eed_1234_5678u64;
    for (s, t) in sw {
        h = crate::runner::splitmix(h ^ s.wrapping_mul(31).wrapping_add(*t as u64));
    }
    h
}

pub fn explore(pool: &Pool, prog: &SetProg, single: usize, double: usize, tapes: usize, tape_seed: u64) -> SetExplored {
    let mut ex = SetExplored { schedules: 0, failure: None, nontrivial: Vec::new(), classes: BTreeMap::new() };
    let run_one = |ex: &mut SetExplored, sw: Vec<(u64, u8)>, random: Option<(u64, u32)>, trace: bool| -> Option<SetOut> {
        let out = exec(pool, prog, sw, random, trace);
        ex.schedules += 1;
        match judge(&out) {
            Ok(ov) => {
                let rs = out.len_after != out.len_before;
                if ov > 0 || rs {
                    ex.nontrivial.push(sched_hash(&out.performed));
                }
                *ex.classes.entry("set_schedules_with_overlapping_writes").or_insert(0) += (ov > 0) as u64;
                *ex.classes.entry("set_schedules_crossing_resize").or_insert(0) += rs as u64;
                *ex.classes.entry("set_scheduler_steps").or_insert(0) += out.steps;
                Some(out)
            }
            Err((p, m)) => {
                ex.failure = Some((out.performed.clone(), p, m));
                None
            }
        }
    };
    let base = match run_one(&mut ex, vec![], None, true) {
        Some(b) => b,
        None => return ex,
    };
    let n = prog.threads.len();
    let mut last = vec![0u64; n];
    for t in &base.trace {
        last[t.thread as usize] = t.step;
    }
    let mut singles: Vec<(u64, u8)> = Vec::new();
    for t in &base.trace {
        for u in 0..n {
            if u as u8 != t.thread && last[u] > t.step {
                singles.push((t.step, u as u8));
            }
        }
    }
    // threads that have not started in the base run at that step are covered too: in the base
    // (run-to-completion) order a later thread's last step is always greater
    let stride = (singles.len() / single.max(1)).max(1);
    let singles: Vec<(u64, u8)> = if singles.len() > single { singles.into_iter().step_by(stride).collect() } else { singles };
    let mut dbl = double;
    for (idx, (s, u)) in singles.iter().enumerate() {
        let second = dbl > 0 && idx % 3 == 0;
        let out = match run_one(&mut ex, vec![(*s, *u)], None, second) {
            Some(o) => o,
            None => return ex,
        };
        if second {
            let cands: Vec<(u64, u8)> = out
                .trace
                .iter()
                .filter(|t| t.step > *s && (t.after_unlock || matches!(t.kind, Kind::Lock | Kind::Store | Kind::Rmw | Kind::Cas | Kind::OpStart)))
                .flat_map(|t| (0..n as u8).filter(move |v| *v != t.thread).map(move |v| (t.step, v)))
                .collect();
            let per = (double / (singles.len() / 3).max(1)).max(1);
            let st = (cands.len() / per).max(1);
            for (s2, v) in cands.iter().step_by(st).take(per) {
                if dbl == 0 {
                    break;
                }
                dbl -= 1;
                if run_one(&mut ex, vec![(*s, *u), (*s2, *v)], None, false).is_none() {
                    return ex;
                }
            }
        }
    }
    for i in 0..tapes {
        let seed = crate::runner::splitmix(tape_seed ^ (i as u64 + 1));
        let gap = [3u32, 8, 20, 60][i % 4];
        if run_one(&mut ex, vec![], Some((seed, gap)), false).is_none() {
            return ex;
        }
    }
    ex
}

pub fn minimize(pool: &Pool, prog: &SetProg, sw: &[(u64, u8)]) -> Vec<(u64, u8)> {
    let mut cur = sw.to_vec();
    let mut i = 0;
    while i < cur.len() && cur.len() <= 64 {
        let mut cand = cur.clone();
        cand.remove(i);
        if judge(&exec(pool, prog, cand.clone(), None, false)).is_err() {
            cur = cand;
            i = 0;
        } else {
            i += 1;
        }
    }
    cur
}

fn sop_strategy(hot: u16, walks: bool) -> BoxedStrategy<SOp> {
    // absent keys of a crowded bin are as likely as present ones
    let key = prop_oneof![3 => 0u16..hot.max(1), 2 => 0u16..4, 1 => hot..hot + 3].boxed();
    prop_oneof![
        6 => key.clone().prop_map(SOp::Insert),
        4 => key.clone().prop_map(SOp::Remove),
        3 => key.clone().prop_map(SOp::Take),
        2 => key.clone().prop_map(SOp::Contains),
        2 => key.prop_map(SOp::Get),
        1 => (0u8..3).prop_map(SOp::Retain),
        1 => (1u16..40).prop_map(SOp::Reserve),
        1 => Just(SOp::Len),
        if walks { 5 } else { 0 } => (0u8..3).prop_map(SOp::IterAll),
        if walks { 4 } else { 0 } => (0u8..4).prop_map(SOp::Serialize),
    ]
    .boxed()
}

pub fn prog_strategy(max_threads: usize, max_ops: usize, walks: bool) -> BoxedStrategy<SetProg> {
    let hm = prop_oneof![3 => Just(HMode::Identity), 2 => Just(HMode::Const0), 1 => Just(HMode::SameBin), 1 => Just(HMode::Mod4), 2 => Just(HMode::Mix)];
    let cap = prop_oneof![2 => Just(0u32), 1 => Just(1u32), 2 => Just(20u32), 2 => Just(42u32)];
    let fac = prop_oneof![Just(SFacade::GuardPerOp), Just(SFacade::GuardPerThread), Just(SFacade::Pin), Just(SFacade::WithGuard)];
    // shape: 0 empty, 1 near threshold (delta 0..3), 2 hot bin of n keys
    let shape = prop_oneof![1 => Just((0u8, 0u16)), 4 => (0u16..3).prop_map(|d| (1u8, d)), 3 => (6u16..12).prop_map(|n| (2u8, n)), 2 => (1u16..5).prop_map(|n| (3u8, n))];
    (hm, cap, fac, shape, 2usize..=max_threads)
        .prop_flat_map(move |(hmode, capacity, facade, shape, nthreads)| {
            let (filler, init, hot): (u16, Vec<u16>, u16) = match shape {
                (0, _) => (0, vec![], 4),
                (1, d) => (near_threshold_filler(capacity, d as i32, 2), vec![0, 1], 4),
                (2, n) => (0, (0..n).collect(), n),
                (_, n) => (3, (0..n).collect(), 5),
            };
            let thread = proptest::collection::vec(sop_strategy(hot, walks), 1..=max_ops);
            proptest::collection::vec(thread, nthreads..=nthreads).prop_map(move |threads| SetProg { hmode, capacity, facade, filler, init: init.clone(), threads })
        })
        .boxed()
}
