//! fvh library: engines and checks of the flurry verification harness.  See /verif/DESIGN.md.
#![allow(clippy::type_complexity, clippy::too_many_arguments, dead_code, static_mut_refs)]

pub mod alloc;
pub mod checks;
pub mod conc;
pub mod hb;
pub mod inspect;
pub mod lin;
pub mod model;
pub mod runner;
pub mod sched;
pub mod seq;
pub mod setconc;
pub mod setseq;
pub mod strictser;
pub mod types;

use runner::{Ctx, ShardOut, Tier};
use serde_json::Value;
use std::path::PathBuf;

pub struct PropDef {
    pub id: &'static str,
    pub level: &'static str,
    pub rule: &'static str,
    pub assumptions: &'static [&'static str],
    pub run_shard: fn(&Ctx, &mut ShardOut),
    /// Err = the violation reproduces
    pub replay: fn(&str, &Value) -> Result<(), runner::CaseFail>,
    pub shards: fn(Tier) -> usize,
    /// seconds after which the parent gives up (exit 2)
    pub watchdog: fn(Tier) -> u64,
}

pub fn verif_dir() -> PathBuf {
    std::env::var("VERIF_DIR").map(PathBuf::from).unwrap_or_else(|_| PathBuf::from("/verif"))
}

