//! E1 for `flurry::HashSet`: same operation language, `BTreeMap<tag, origin>` as the model.
use crate::inspect;
use crate::model::*;
use crate::seq::{Fail, FSet, Oracles, Stats};
use crate::types::*;
use std::collections::{BTreeMap, BTreeSet};
use std::panic::{catch_unwind, AssertUnwindSafe};

pub struct SetRun {
    pub cfg: Cfg,
    pub or: Oracles,
    set: Option<Box<FSet>>,
    pub model: BTreeMap<u32, u32>,
    pub stats: Stats,
    step: usize,
}

macro_rules! fail {
    ($prop:expr, $self:expr, $($arg:tt)*) => {
        return Err(Fail { prop: $prop, step: $self.step, msg: format!($($arg)*) })
    };
}

struct Hinted<I> {
    it: I,
    lo: usize,
}
impl<I: Iterator> Iterator for Hinted<I> {
    type Item = I::Item;
    fn next(&mut self) -> Option<I::Item> {
        let r = self.it.next();
        if r.is_some() && self.lo > 0 {
            self.lo -= 1;
        }
        r
    }
    fn size_hint(&self) -> (usize, Option<usize>) {
        (self.lo, None)
    }
}

fn intact(k: &K, tag: u32) -> bool {
    k.intact() && k.tag == tag
}

impl SetRun {
    pub fn new(cfg: Cfg, or: Oracles) -> SetRun {
        set_default_hmode(cfg.hmode);
        // HashSet has no with_collector: the default collector (batch 120) is used
        let set = Box::new(FSet::with_capacity_and_hasher(cfg.capacity as usize, HB(cfg.hmode)));
        SetRun { cfg, or, set: Some(set), model: BTreeMap::new(), stats: Stats::default(), step: 0 }
    }
    fn set(&self) -> &'static FSet {
        unsafe { &*(self.set.as_ref().unwrap().as_ref() as *const FSet) }
    }

    fn run_one(&mut self, op: &Op) -> Result<(), Fail> {
        let s = self.set();
        let f = self.cfg.facade;
        let chk = self.or.returns;
        match op {
            Op::Insert(i) | Op::TryInsert(i) => {
                let tag = self.cfg.tag(*i);
                let k = K::new(tag);
                let origin = k.origin;
                let got = match f {
                    Facade::Pin => s.pin().insert(k),
                    Facade::WithGuard => {
                        let g = s.guard();
                        let r = s.with_guard(&g).insert(k);
                        r
                    }
                    _ => s.insert(k, &s.guard()),
                };
                let want = !self.model.contains_key(&tag);
                if chk && got != want {
                    fail!("C02", self, "set.insert({}) returned {}, model says {}", tag, got, want);
                }
                self.model.entry(tag).or_insert(origin);
            }
            Op::Get(i) | Op::GetKV(i) => {
                let tag = self.cfg.tag(*i);
                let k = K::probe(tag);
                let g = s.guard();
                let got = match f {
                    Facade::Pin => {
                        let p = s.pin();
                        let r = p.get(&k).map(|x| (x.origin, intact(x, tag)));
                        r
                    }
                    Facade::WithGuard => s.with_guard(&g).get(&k).map(|x| (x.origin, intact(x, tag))),
                    _ => s.get(&k, &g).map(|x| (x.origin, intact(x, tag))),
                };
                let want = self.model.get(&tag).map(|o| (*o, true));
                if chk && got != want {
                    fail!("C02", self, "set.get({}) returned {:?}, model says {:?}", tag, got, want);
                }
            }
            Op::Contains(i) | Op::Index(i) | Op::Compute(i, _) => {
                let tag = self.cfg.tag(*i);
                let k = K::probe(tag);
                let g = s.guard();
                let got = match f {
                    Facade::Pin => s.pin().contains(&k),
                    Facade::WithGuard => s.with_guard(&g).contains(&k),
                    _ => s.contains(&k, &g),
                };
                if chk && got != self.model.contains_key(&tag) {
                    fail!("C02", self, "set.contains({}) returned {}", tag, got);
                }
            }
            Op::Remove(i) => {
                let tag = self.cfg.tag(*i);
                let k = K::probe(tag);
                let g = s.guard();
                let got = match f {
                    Facade::Pin => s.pin().remove(&k),
                    Facade::WithGuard => s.with_guard(&g).remove(&k),
                    _ => s.remove(&k, &g),
                };
                let want = self.model.remove(&tag).is_some();
                if chk && got != want {
                    fail!("C02", self, "set.remove({}) returned {}, model says {}", tag, got, want);
                }
            }
            Op::RemoveEntry(i) => {
                let tag = self.cfg.tag(*i);
                let k = K::probe(tag);
                let g = s.guard();
                let got = match f {
                    Facade::Pin => {
                        let p = s.pin();
                        let r = p.take(&k).map(|x| (x.origin, intact(x, tag)));
                        r
                    }
                    Facade::WithGuard => s.with_guard(&g).take(&k).map(|x| (x.origin, intact(x, tag))),
                    _ => s.take(&k, &g).map(|x| (x.origin, intact(x, tag))),
                };
                let want = self.model.remove(&tag).map(|o| (o, true));
                if chk && got != want {
                    fail!("C02", self, "set.take({}) returned {:?}, model says {:?}", tag, got, want);
                }
            }
            Op::Retain(p) | Op::RetainForce(p) => {
                let calls = std::cell::RefCell::new(Vec::new());
                let pf = |k: &K| {
                    calls.borrow_mut().push((k.tag, k.origin));
                    p.keep(k.tag, 0)
                };
                let g = s.guard();
                match f {
                    Facade::Pin => s.pin().retain(pf),
                    Facade::WithGuard => s.with_guard(&g).retain(pf),
                    _ => s.retain(pf, &g),
                }
                let mut c = calls.into_inner();
                c.sort();
                let want: Vec<_> = self.model.iter().map(|(t, o)| (*t, *o)).collect();
                if chk && c != want {
                    fail!("C02", self, "set.retain showed its predicate {:?}, model holds {:?}", c, want);
                }
                self.model.retain(|t, _| p.keep(*t, 0));
            }
            Op::Clear => {
                let g = s.guard();
                match f {
                    Facade::Pin => s.pin().clear(),
                    Facade::WithGuard => s.with_guard(&g).clear(),
                    _ => s.clear(&g),
                }
                self.model.clear();
            }
            Op::Reserve(n) => {
                let g = s.guard();
                match f {
                    Facade::Pin => s.pin().reserve(*n as usize),
                    Facade::WithGuard => s.with_guard(&g).reserve(*n as usize),
                    _ => s.reserve(*n as usize, &g),
                }
            }
            Op::Extend(idxs, h) => {
                let items: Vec<K> = idxs.iter().map(|i| K::new(self.cfg.tag(*i))).collect();
                for k in &items {
                    self.model.entry(k.tag).or_insert(k.origin);
                }
                let lo = items.len() * *h as usize / 255;
                let mut r = s;
                r.extend(Hinted { it: items.into_iter(), lo });
            }
            Op::Collect(idxs, h) => {
                let items: Vec<K> = idxs.iter().map(|i| K::new(self.cfg.tag(*i))).collect();
                let mut model = BTreeMap::new();
                for k in &items {
                    model.entry(k.tag).or_insert(k.origin);
                }
                let lo = items.len() * *h as usize / 255;
                set_default_hmode(self.cfg.hmode);
                let ns: FSet = Hinted { it: items.into_iter(), lo }.collect();
                self.set = None;
                self.set = Some(Box::new(ns));
                self.model = model;
            }
            Op::CloneSwap => {
                let c = s.clone();
                if chk && (!(c == *s) || !(*s == c)) {
                    fail!("C02", self, "a cloned set does not compare equal to its original");
                }
                self.set = None;
                self.set = Some(Box::new(c));
            }
            Op::EqCheck => {
                if !chk {
                    return Ok(());
                }
                let other = FSet::with_capacity_and_hasher(self.step % 40, HB(self.cfg.hmode));
                {
                    let g = other.guard();
                    for t in self.model.keys().rev() {
                        other.insert(K::new(*t), &g);
                    }
                }
                let (g1, g2) = (s.guard(), other.guard());
                let e = (*s == other, other == *s, s.with_guard(&g1) == other.with_guard(&g2), s.with_guard(&g1) == other, *s == other.with_guard(&g2));
                if e != (true, true, true, true, true) {
                    fail!("C02", self, "set != an equal set: {:?}", e);
                }
                other.insert(K::new(2_000_000), &g2);
                let e = (*s == other, other == *s, s.with_guard(&g1) == other.with_guard(&g2));
                if e != (false, false, false) {
                    fail!("C02", self, "set == a different set: {:?}", e);
                }
            }
            Op::Iterate(_) => {
                let g = s.guard();
                let mut got: Vec<(u32, u32, bool)> = match f {
                    Facade::Pin => {
                        let p = s.pin();
                        let v: Vec<_> = if self.step % 2 == 0 { p.iter().map(|k| (k.tag, k.origin, k.intact())).collect() } else { (&p).into_iter().map(|k| (k.tag, k.origin, k.intact())).collect() };
                        v
                    }
                    Facade::WithGuard => s.with_guard(&g).iter().map(|k| (k.tag, k.origin, k.intact())).collect(),
                    _ => s.iter(&g).map(|k| (k.tag, k.origin, k.intact())).collect(),
                };
                got.sort();
                let want: Vec<_> = self.model.iter().map(|(t, o)| (*t, *o, true)).collect();
                if chk && got != want {
                    fail!("C02", self, "set iteration yielded {:?}, model holds {:?}", got, want);
                }
            }
            Op::Debug => {
                if !chk {
                    return Ok(());
                }
                let s1 = format!("{:?}", s);
                let g = s.guard();
                let s2 = format!("{:?}", s.with_guard(&g));
                struct D<'a>(&'a FSet, &'a seize::Guard<'a>);
                impl std::fmt::Debug for D<'_> {
                    fn fmt(&self, f: &mut std::fmt::Formatter<'_>) -> std::fmt::Result {
                        f.debug_set().entries(self.0.iter(self.1)).finish()
                    }
                }
                let dm = format!("{:?}", D(s, &g));
                if s1 != dm || s2 != dm {
                    fail!("C02", self, "set Debug {:?} / {:?} differs from the rendering of its iteration {:?}", s1, s2, dm);
                }
                let want = debug_renderings(&D(s, &g));
                for (facade, got) in [("HashSet", debug_renderings(s)), ("with_guard()", debug_renderings(&s.with_guard(&g))), ("pin()", debug_renderings(&s.pin()))] {
                    if let Some(i) = (0..want.len()).find(|i| got[*i] != want[*i]) {
                        fail!("C02", self, "Debug of {} under format specification #{} prints {:?}, the debug-set rendering of its iteration under the same specification is {:?}", facade, i, got[i], want[i]);
                    }
                }
            }
            Op::Relations(idxs) => {
                if !chk {
                    return Ok(());
                }
                let other = FSet::with_hasher(HB(self.cfg.hmode));
                let mut om = BTreeSet::new();
                {
                    let g = other.guard();
                    for i in idxs {
                        let t = self.cfg.tag(*i);
                        other.insert(K::new(t), &g);
                        om.insert(t);
                    }
                }
                let mine: BTreeSet<u32> = self.model.keys().copied().collect();
                let (g1, g2) = (s.guard(), other.guard());
                let got = match f {
                    Facade::Pin | Facade::WithGuard => {
                        let (a, b) = (s.with_guard(&g1), other.with_guard(&g2));
                        (a.is_disjoint(&b), a.is_subset(&b), a.is_superset(&b), b.is_disjoint(&a), b.is_subset(&a), b.is_superset(&a))
                    }
                    _ => (
                        s.is_disjoint(&other, &g1, &g2),
                        s.is_subset(&other, &g1, &g2),
                        s.is_superset(&other, &g1, &g2),
                        other.is_disjoint(s, &g2, &g1),
                        other.is_subset(s, &g2, &g1),
                        other.is_superset(s, &g2, &g1),
                    ),
                };
                let want = (mine.is_disjoint(&om), mine.is_subset(&om), mine.is_superset(&om), om.is_disjoint(&mine), om.is_subset(&mine), om.is_superset(&mine));
                if got != want {
                    fail!("C02", self, "set relations against {:?}: got {:?}, expected {:?} (own contents {:?})", om, got, want, mine);
                }
            }
            Op::ClearUnprotected | Op::RetainUnprotected(..) => {}
            Op::Fill(..) | Op::Drain(..) => unreachable!(),
        }
        Ok(())
    }

    fn step(&mut self, op: &Op) -> Result<(), Fail> {
        self.step += 1;
        self.stats.steps += 1;
        let before = inspect::shape(&unsafe { self.set().verif_dump() });
        let r = catch_unwind(AssertUnwindSafe(|| self.run_one(op)));
        match r {
            Ok(r) => r?,
            Err(e) => {
                let m = if let Some(s) = e.downcast_ref::<&str>() { s.to_string() } else if let Some(s) = e.downcast_ref::<String>() { s.clone() } else { "?".into() };
                return Err(Fail { prop: "ANY", step: self.step, msg: format!("set operation {:?} panicked: {}", op, m) });
            }
        }
        let s = self.set();
        let d = unsafe { s.verif_dump() };
        let after = inspect::shape(&d);
        if !matches!(op, Op::Collect(..) | Op::CloneSwap) {
            if before.table_len != 0 && after.table_len > before.table_len {
                self.stats.resizes += 1;
                if before.tree_bins > 0 {
                    self.stats.tree_splits += 1;
                }
            } else if after.tree_bins > before.tree_bins {
                self.stats.treeify += 1;
            } else if after.tree_bins < before.tree_bins && !matches!(op, Op::Clear) {
                self.stats.untreeify += 1;
            }
        }
        self.stats.max_table = self.stats.max_table.max(after.table_len);
        self.stats.max_tree = self.stats.max_tree.max(after.max_tree);
        if self.or.returns || self.or.quiescent {
            if s.len() != self.model.len() || s.is_empty() != self.model.is_empty() {
                fail!(if self.or.returns { "C02" } else { "C05" }, self, "set.len() = {}, model holds {}", s.len(), self.model.len());
            }
        }
        let g = s.guard();
        if self.or.returns {
            for t in self.cfg.all_tags() {
                let got = s.get(&K::probe(t), &g).map(|k| k.origin);
                if got != self.model.get(&t).copied() {
                    fail!("C02", self, "set.get({}) = {:?} after the step, model says {:?}", t, got, self.model.get(&t));
                }
            }
        }
        if self.or.quiescent {
            let mut it: Vec<u32> = s.iter(&g).map(|k| k.tag).collect();
            it.sort();
            let looked: Vec<u32> = self.cfg.all_tags().into_iter().filter(|t| s.contains(&K::probe(*t), &g)).collect::<BTreeSet<_>>().into_iter().collect();
            if it != looked || s.len() != it.len() {
                fail!("C05", self, "set iteration yields {:?}, lookups succeed for {:?}, len() = {}", it, looked, s.len());
            }
            if let Err(e) = inspect::check_quiescent(&d, self.cfg.hmode) {
                fail!("C05", self, "{}", e);
            }
        }
        Ok(())
    }

    pub fn run(&mut self, ops: &[Op]) -> Result<(), Fail> {
        for op in ops {
            match op {
                Op::Fill(from, n) => {
                    for j in 0..*n {
                        self.step(&Op::Insert(from.wrapping_add(j)))?;
                    }
                }
                Op::Drain(from, n) => {
                    for j in 0..*n {
                        self.step(&Op::Remove(from.wrapping_add(j)))?;
                    }
                }
                _ => self.step(op)?,
            }
        }
        Ok(())
    }
}

pub fn run_set_case(case: &SeqCase, or: Oracles) -> Result<Stats, Fail> {
    ledger_reset();
    let mut r = SetRun::new(case.cfg.clone(), or);
    let res = r.run(&case.ops);
    let stats = r.stats.clone();
    let step = r.step;
    let dropped = catch_unwind(AssertUnwindSafe(move || drop(r)));
    res?;
    if dropped.is_err() {
        return Err(Fail { prop: "ANY", step, msg: "dropping the set panicked".into() });
    }
    if or.ledger {
        for i in ledger_snapshot() {
            if i.drops != 1 {
                return Err(Fail { prop: "C04", step, msg: format!("set element instance (tag {}, origin {}, cloned {}) was dropped {} times", i.ident, i.origin, i.cloned, i.drops) });
            }
        }
    }
    Ok(stats)
}
