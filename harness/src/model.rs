//! Operation language, configuration and proptest generators of the sequential engine (E1).
use crate::types::HMode;
use proptest::prelude::*;
use serde::{Deserialize, Serialize};

#[derive(Clone, Copy, Debug, PartialEq, Eq, Serialize, Deserialize)]
pub enum Facade {
    /// fresh guard per operation, passed explicitly
    Guarded,
    /// one guard kept over many operations, refreshed every n operations
    Long(u8),
    /// `map.pin()` per operation
    Pin,
    /// `map.with_guard(&guard)` per operation
    WithGuard,
}

#[derive(Clone, Copy, Debug, PartialEq, Eq, Serialize, Deserialize)]
pub enum KeyMap {
    /// tag = index
    Dense,
    /// even indices dense, odd indices multiples of 64 (collide under the identity hasher)
    Mixed,
}

#[derive(Clone, Debug, PartialEq, Eq, Serialize, Deserialize)]
pub struct Cfg {
    pub hmode: HMode,
    pub capacity: u32,
    pub facade: Facade,
    /// seize collector batch size
    pub batch: u32,
    pub universe: u16,
    pub keymap: KeyMap,
    pub set: bool,
}

impl Cfg {
    pub fn tag(&self, idx: u16) -> u32 {
        let i = (idx % self.universe.max(1)) as u32;
        match self.keymap {
            KeyMap::Dense => i,
            KeyMap::Mixed => {
                if i % 2 == 0 {
                    i / 2
                } else {
                    (i / 2 + 1) * 64
                }
            }
        }
    }
    pub fn all_tags(&self) -> Vec<u32> {
        (0..self.universe).map(|i| self.tag(i)).collect()
    }
}

#[derive(Clone, Copy, Debug, PartialEq, Eq, Serialize, Deserialize)]
pub enum Act {
    Inc,
    Set,
    Remove,
}

#[derive(Clone, Copy, Debug, PartialEq, Eq, Serialize, Deserialize)]
pub enum Pred {
    /// keep iff tag % m == r
    KeyMod(u8, u8),
    /// keep iff payload is even
    ValEven,
    True,
    False,
    /// keep iff tag < t
    KeyLess(u16),
}
impl Pred {
    pub fn keep(&self, tag: u32, payload: u64) -> bool {
        match *self {
            Pred::KeyMod(m, r) => tag % (m.max(1) as u32) == (r % m.max(1)) as u32,
            Pred::ValEven => payload % 2 == 0,
            Pred::True => true,
            Pred::False => false,
            Pred::KeyLess(t) => tag < t as u32,
        }
    }
}

#[derive(Clone, Debug, PartialEq, Eq, Serialize, Deserialize)]
pub enum Op {
    Insert(u16),
    TryInsert(u16),
    Get(u16),
    GetKV(u16),
    Contains(u16),
    Remove(u16),
    RemoveEntry(u16),
    Compute(u16, Act),
    Retain(Pred),
    RetainForce(Pred),
    Clear,
    Reserve(u16),
    /// items (key indices), lower size hint as a fraction (x/255 of the true length)
    Extend(Vec<u16>, u8),
    /// build a fresh map with `collect()` from these items and continue on it
    Collect(Vec<u16>, u8),
    CloneSwap,
    EqCheck,
    Iterate(u8),
    Index(u16),
    Debug,
    /// set relations against a second set built from these indices (sets only)
    Relations(Vec<u16>),
    /// `clear` / `retain` / `retain_force` called with `Guard::unprotected()`: legal on a map that
    /// only this thread can reach (everything retired is freed at once, so the operation must not
    /// touch anything after retiring it)
    ClearUnprotected,
    RetainUnprotected(Pred, bool),
    /// insert a run of `n` consecutive key indices starting at `from` (shape template)
    Fill(u16, u16),
    /// remove a run
    Drain(u16, u16),
}

pub fn hmode_strategy() -> impl Strategy<Value = HMode> {
    prop_oneof![
        3 => Just(HMode::Identity),
        2 => Just(HMode::Const0),
        1 => Just(HMode::ConstMax),
        1 => Just(HMode::High),
        2 => Just(HMode::SameBin),
        1 => Just(HMode::Mod4),
        2 => Just(HMode::Mix),
        2 => Just(HMode::PairBin),
        1 => Just(HMode::FewHigh),
        1 => Just(HMode::Shift4),
    ]
}

pub fn facade_strategy() -> impl Strategy<Value = Facade> {
    prop_oneof![
        3 => Just(Facade::Guarded),
        2 => (1u8..40).prop_map(Facade::Long),
        2 => Just(Facade::Pin),
        1 => Just(Facade::WithGuard),
    ]
}

pub fn batch_strategy() -> impl Strategy<Value = u32> {
    prop_oneof![
        3 => Just(1u32),
        2 => Just(2u32),
        1 => Just(3u32),
        1 => Just(8u32),
        1 => Just(32u32),
        1 => Just(120u32),
    ]
}

pub fn capacity_strategy() -> impl Strategy<Value = u32> {
    prop_oneof![
        3 => Just(0u32),
        4 => 1u32..=64,
        1 => Just(100u32),
        1 => Just(1000u32),
    ]
}

pub fn cfg_strategy(set: bool) -> impl Strategy<Value = Cfg> {
    (
        hmode_strategy(),
        capacity_strategy(),
        facade_strategy(),
        batch_strategy(),
        prop_oneof![1 => Just(4u16), 2 => Just(8u16), 3 => Just(16u16), 4 => Just(32u16), 3 => Just(64u16), 1 => Just(200u16)],
        prop_oneof![Just(KeyMap::Dense), Just(KeyMap::Mixed)],
    )
        .prop_map(move |(hmode, capacity, facade, batch, universe, keymap)| Cfg {
            hmode,
            capacity,
            facade,
            batch,
            universe,
            keymap,
            set,
        })
}

pub fn pred_strategy() -> impl Strategy<Value = Pred> {
    prop_oneof![
        4 => (1u8..6, 0u8..6).prop_map(|(m, r)| Pred::KeyMod(m, r)),
        2 => Just(Pred::ValEven),
        1 => Just(Pred::True),
        1 => Just(Pred::False),
        2 => (0u16..300).prop_map(Pred::KeyLess),
    ]
}

fn items(u: u16) -> impl Strategy<Value = Vec<u16>> {
    prop_oneof![
        3 => proptest::collection::vec(0..u, 0..12),
        2 => proptest::collection::vec(0..u, 12..80),
        1 => proptest::collection::vec(0..u, 80..300),
    ]
}

pub fn op_strategy(u: u16, set: bool) -> BoxedStrategy<Op> {
    let k = 0..u;
    if set {
        prop_oneof![
            30 => k.clone().prop_map(Op::Insert),
            6 => k.clone().prop_map(Op::Get),
            6 => k.clone().prop_map(Op::Contains),
            12 => k.clone().prop_map(Op::Remove),
            6 => k.clone().prop_map(Op::RemoveEntry), // = take
            4 => pred_strategy().prop_map(Op::Retain),
            1 => Just(Op::Clear),
            2 => (0u16..600).prop_map(Op::Reserve),
            3 => (items(u), any::<u8>()).prop_map(|(i, h)| Op::Extend(i, h)),
            2 => (items(u), any::<u8>()).prop_map(|(i, h)| Op::Collect(i, h)),
            2 => Just(Op::CloneSwap),
            2 => Just(Op::EqCheck),
            3 => Just(Op::Iterate(0)),
            1 => Just(Op::Debug),
            4 => proptest::collection::vec(0..u, 0..20).prop_map(Op::Relations),
            6 => (0..u, 1u16..40).prop_map(|(a, n)| Op::Fill(a, n)),
            3 => (0..u, 1u16..40).prop_map(|(a, n)| Op::Drain(a, n)),
        ]
        .boxed()
    } else {
        prop_oneof![
            30 => k.clone().prop_map(Op::Insert),
            6 => k.clone().prop_map(Op::TryInsert),
            5 => k.clone().prop_map(Op::Get),
            3 => k.clone().prop_map(Op::GetKV),
            2 => k.clone().prop_map(Op::Contains),
            10 => k.clone().prop_map(Op::Remove),
            5 => k.clone().prop_map(Op::RemoveEntry),
            8 => (k.clone(), prop_oneof![Just(Act::Inc), Just(Act::Set), Just(Act::Remove)]).prop_map(|(k, a)| Op::Compute(k, a)),
            3 => pred_strategy().prop_map(Op::Retain),
            3 => pred_strategy().prop_map(Op::RetainForce),
            1 => Just(Op::Clear),
            2 => (0u16..600).prop_map(Op::Reserve),
            3 => (items(u), any::<u8>()).prop_map(|(i, h)| Op::Extend(i, h)),
            2 => (items(u), any::<u8>()).prop_map(|(i, h)| Op::Collect(i, h)),
            2 => Just(Op::CloneSwap),
            2 => Just(Op::EqCheck),
            3 => (0u8..3).prop_map(Op::Iterate),
            2 => k.clone().prop_map(Op::Index),
            1 => Just(Op::Debug),
            1 => Just(Op::ClearUnprotected),
            6 => (0..u, 1u16..40).prop_map(|(a, n)| Op::Fill(a, n)),
            3 => (0..u, 1u16..40).prop_map(|(a, n)| Op::Drain(a, n)),
        ]
        .boxed()
    }
}

#[derive(Clone, Debug, PartialEq, Eq, Serialize, Deserialize)]
pub struct SeqCase {
    pub cfg: Cfg,
    pub ops: Vec<Op>,
}

pub fn seq_case_strategy(set: bool, max_ops: usize) -> impl Strategy<Value = SeqCase> {
    cfg_strategy(set).prop_flat_map(move |cfg| {
        let u = cfg.universe;
        proptest::collection::vec(op_strategy(u, set), 0..max_ops).prop_map(move |ops| SeqCase {
            cfg: cfg.clone(),
            ops,
        })
    })
}
