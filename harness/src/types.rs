//! Instrumented key / value types, the drop ledger and the deterministic hashers.
use serde::{Deserialize, Serialize};
use std::cell::Cell;
use std::hash::{BuildHasher, Hash, Hasher};
use std::sync::atomic::{AtomicU64, AtomicU8, Ordering};
use std::sync::Mutex;

const KMAGIC: u64 = 0x4b4b_4b4b_a5a5_5a5a;
const VMAGIC: u64 = 0x5656_5656_c3c3_3c3c;
const DEAD: u64 = 0xdead_dead_dead_dead;

/* ------------------------------- ledger ------------------------------- */

#[derive(Clone, Debug)]
pub struct Inst {
    pub is_key: bool,
    /// key: tag, value: id
    pub ident: u64,
    pub origin: u32,
    pub drops: u32,
    /// logical time of creation / first drop
    pub created: u64,
    pub dropped_at: u64,
    /// smallest creation time among the harness guards alive at the first drop (u64::MAX = none)
    pub min_live_guard_at_drop: u64,
    /// made by `Clone` (i.e. by the map, the harness never clones)
    pub cloned: bool,
}

#[derive(Default)]
pub struct Ledger {
    pub insts: Vec<Inst>,
    /// (guard id, creation time) of the harness guards currently alive
    pub live_guards: Vec<(u64, u64)>,
    pub enabled: bool,
}

static LEDGER: Mutex<Ledger> = Mutex::new(Ledger {
    insts: Vec::new(),
    live_guards: Vec::new(),
    enabled: true,
});
static CLOCK: AtomicU64 = AtomicU64::new(1);
static NEXT_VID: AtomicU64 = AtomicU64::new(1);
static NEXT_ORIGIN: AtomicU64 = AtomicU64::new(1);
static NEXT_GUARD: AtomicU64 = AtomicU64::new(1);

pub fn tick() -> u64 {
    CLOCK.fetch_add(1, Ordering::SeqCst)
}
pub fn now() -> u64 {
    CLOCK.load(Ordering::SeqCst)
}

fn ledger() -> std::sync::MutexGuard<'static, Ledger> {
    match LEDGER.lock() {
        Ok(g) => g,
        Err(p) => p.into_inner(),
    }
}

/// Forget everything (start of a case). Instances still alive from an earlier case keep
/// working: their ids are simply out of range afterwards and are ignored.
pub fn ledger_reset() {
    let mut l = ledger();
    l.insts.clear();
    l.live_guards.clear();
    EPOCH.fetch_add(1, Ordering::SeqCst);
}
static EPOCH: AtomicU64 = AtomicU64::new(1);

fn ledger_new(is_key: bool, ident: u64, origin: u32, cloned: bool) -> (u64, u64) {
    let mut l = ledger();
    let id = l.insts.len() as u64;
    l.insts.push(Inst {
        is_key,
        ident,
        origin,
        drops: 0,
        created: tick(),
        dropped_at: 0,
        min_live_guard_at_drop: u64::MAX,
        cloned,
    });
    (id, EPOCH.load(Ordering::SeqCst))
}

fn ledger_drop(inst: u64, epoch: u64) {
    let mut l = ledger();
    if epoch != EPOCH.load(Ordering::SeqCst) {
        return;
    }
    let min_live = l.live_guards.iter().map(|g| g.1).min().unwrap_or(u64::MAX);
    if let Some(i) = l.insts.get_mut(inst as usize) {
        i.drops += 1;
        if i.drops == 1 {
            i.dropped_at = tick();
            i.min_live_guard_at_drop = min_live;
        }
    }
}

pub fn ledger_snapshot() -> Vec<Inst> {
    ledger().insts.clone()
}
pub fn ledger_drops(inst: u64) -> u32 {
    ledger().insts.get(inst as usize).map_or(0, |i| i.drops)
}
pub fn guard_born() -> (u64, u64) {
    let id = NEXT_GUARD.fetch_add(1, Ordering::SeqCst);
    let t = tick();
    ledger().live_guards.push((id, t));
    (id, t)
}
pub fn guard_died(id: u64) {
    ledger().live_guards.retain(|g| g.0 != id);
}

/* ------------------------------- keys ------------------------------- */

thread_local! {
    pub static CMPS: Cell<u64> = const { Cell::new(0) };
}
pub fn cmps() -> u64 {
    CMPS.with(|c| c.get())
}
fn bump() {
    CMPS.with(|c| c.set(c.get() + 1));
}

pub struct K {
    pub tag: u32,
    pub origin: u32,
    pub inst: u64,
    epoch: u64,
    canary: u64,
}
/// callbacks (Eq / Ord / Hash / Debug / Serialize / Clone) invoked on a key or value whose canary is
/// gone: the object had been destroyed, or its memory freed (and poisoned), when the map handed it
/// to the caller's code
static DEAD_TOUCHES: AtomicU64 = AtomicU64::new(0);
static DEAD_FIRST: std::sync::Mutex<Option<String>> = std::sync::Mutex::new(None);
fn dead_touch(what: &str, ident: u64) {
    if DEAD_TOUCHES.fetch_add(1, Ordering::SeqCst) == 0 {
        if let Ok(mut g) = DEAD_FIRST.lock() {
            *g = Some(format!("{} was invoked on an object (recorded identity {:#x}) that had already been destroyed or freed", what, ident));
        }
    }
}
/// the first such callback since the last call, if any
pub fn take_dead_touch() -> Option<String> {
    if DEAD_TOUCHES.swap(0, Ordering::SeqCst) == 0 {
        return None;
    }
    DEAD_FIRST.lock().ok().and_then(|mut g| g.take()).or_else(|| Some("a callback was invoked on a destroyed object".into()))
}
impl K {
    #[inline]
    fn alive(&self, what: &str) {
        if self.canary != self.inst ^ KMAGIC {
            dead_touch(what, self.inst);
        }
    }
    pub fn new(tag: u32) -> K {
        let origin = NEXT_ORIGIN.fetch_add(1, Ordering::SeqCst) as u32;
        let (inst, epoch) = ledger_new(true, tag as u64, origin, false);
        K {
            tag,
            origin,
            inst,
            epoch,
            canary: inst ^ KMAGIC,
        }
    }
    /// a key that is only used for lookups (still ledgered; dropped by the harness)
    pub fn probe(tag: u32) -> K {
        K::new(tag)
    }
    pub fn intact(&self) -> bool {
        self.canary == self.inst ^ KMAGIC
            && (self.epoch != EPOCH.load(Ordering::SeqCst) || ledger_drops(self.inst) == 0)
    }
}
impl Clone for K {
    fn clone(&self) -> K {
        self.alive("Clone for the key type");
        let (inst, epoch) = ledger_new(true, self.tag as u64, self.origin, true);
        crate::sched::emit_user(crate::hb::U_CLONE_K, self.inst, inst);
        K {
            tag: self.tag,
            origin: self.origin,
            inst,
            epoch,
            canary: inst ^ KMAGIC,
        }
    }
}
impl Drop for K {
    fn drop(&mut self) {
        ledger_drop(self.inst, self.epoch);
        self.canary = DEAD;
    }
}
impl PartialEq for K {
    fn eq(&self, o: &K) -> bool {
        bump();
        self.alive("Eq for the key type");
        o.alive("Eq for the key type");
        // a comparison reads both keys: for the happens-before monitor this is where a key
        // stored in the map is actually accessed
        crate::sched::emit_user(crate::hb::U_ACCESS_K, self.inst, 0);
        crate::sched::emit_user(crate::hb::U_ACCESS_K, o.inst, 0);
        self.tag == o.tag
    }
}
impl Eq for K {}
impl PartialOrd for K {
    fn partial_cmp(&self, o: &K) -> Option<std::cmp::Ordering> {
        Some(self.cmp(o))
    }
}
impl Ord for K {
    fn cmp(&self, o: &K) -> std::cmp::Ordering {
        bump();
        self.alive("Ord for the key type");
        o.alive("Ord for the key type");
        crate::sched::emit_user(crate::hb::U_ACCESS_K, self.inst, 0);
        crate::sched::emit_user(crate::hb::U_ACCESS_K, o.inst, 0);
        self.tag.cmp(&o.tag)
    }
}
impl Hash for K {
    fn hash<H: Hasher>(&self, h: &mut H) {
        self.alive("Hash for the key type");
        h.write_u32(self.tag)
    }
}
impl std::fmt::Debug for K {
    fn fmt(&self, f: &mut std::fmt::Formatter<'_>) -> std::fmt::Result {
        // the formatter's options (hex, width, sign, alternate ...) reach the number, as they do for
        // any derived Debug: a container that forwards a different formatter shows up in the output
        self.alive("Debug for the key type");
        f.write_str("k")?;
        std::fmt::Debug::fmt(&self.tag, f)
    }
}

/* ------------------------------- values ------------------------------- */

pub struct V {
    pub id: u64,
    pub payload: u64,
    pub inst: u64,
    epoch: u64,
    canary: u64,
}
impl V {
    #[inline]
    fn alive(&self, what: &str) {
        if self.canary != self.id ^ VMAGIC {
            dead_touch(what, self.id);
        }
    }
    pub fn new(payload: u64) -> V {
        let id = NEXT_VID.fetch_add(1, Ordering::SeqCst);
        let (inst, epoch) = ledger_new(false, id, 0, false);
        V {
            id,
            payload,
            inst,
            epoch,
            canary: id ^ VMAGIC,
        }
    }
    pub fn intact(&self) -> bool {
        self.canary == self.id ^ VMAGIC
            && (self.epoch != EPOCH.load(Ordering::SeqCst) || ledger_drops(self.inst) == 0)
    }
}
impl Clone for V {
    /// only `HashMap::clone` clones values; the copy gets a fresh identity but the same payload
    fn clone(&self) -> V {
        self.alive("Clone for the value type");
        let id = NEXT_VID.fetch_add(1, Ordering::SeqCst);
        let (inst, epoch) = ledger_new(false, id, 0, true);
        V {
            id,
            payload: self.payload,
            inst,
            epoch,
            canary: id ^ VMAGIC,
        }
    }
}
impl Drop for V {
    fn drop(&mut self) {
        ledger_drop(self.inst, self.epoch);
        self.canary = DEAD;
    }
}
impl PartialEq for V {
    fn eq(&self, o: &V) -> bool {
        self.payload == o.payload
    }
}
impl Eq for V {}
impl std::fmt::Debug for V {
    fn fmt(&self, f: &mut std::fmt::Formatter<'_>) -> std::fmt::Result {
        self.alive("Debug for the value type");
        f.write_str("v")?;
        std::fmt::Debug::fmt(&self.payload, f)
    }
}

/* ------------------------------- hashers ------------------------------- */

#[derive(Clone, Copy, Debug, PartialEq, Eq, Hash, Serialize, Deserialize)]
pub enum HMode {
    /// hash = tag
    Identity,
    /// hash = 0 for every key
    Const0,
    /// hash = u64::MAX for every key
    ConstMax,
    /// hash = tag << 48 (only high bits differ)
    High,
    /// hash = tag << 8 | 5: one bin until the table outgrows 256 bins, all hashes distinct
    SameBin,
    /// hash = tag % 4
    Mod4,
    /// a fixed 64-bit mixer (uniform)
    Mix,
    /// hash = (tag / 2) << 8 | 5: one bin until the table outgrows 256 bins, and every hash value is
    /// shared by two keys (a tree bin with several hash values, each with equal-hash neighbours)
    PairBin,
    /// hash = (tag % 5) << 40: five hash values shared by all keys, all in bin 0 of every table
    FewHigh,
    /// hash = tag << 4: every key in bin 0 of a 16-bin table, and consecutive tags differ in the
    /// bits that split that bin at every later doubling (long list bins of small tables whose
    /// nodes go to both halves)
    Shift4,
}
pub const ALL_HMODES: [HMode; 10] = [
    HMode::Identity,
    HMode::Const0,
    HMode::ConstMax,
    HMode::High,
    HMode::SameBin,
    HMode::Mod4,
    HMode::Mix,
    HMode::PairBin,
    HMode::FewHigh,
    HMode::Shift4,
];
impl HMode {
    pub fn hash_tag(self, tag: u32) -> u64 {
        let a = tag as u64;
        match self {
            HMode::Identity => a,
            HMode::Const0 => 0,
            HMode::ConstMax => u64::MAX,
            HMode::High => a << 48,
            HMode::SameBin => (a << 8) | 5,
            HMode::Mod4 => a % 4,
            HMode::PairBin => ((a >> 1) << 8) | 5,
            HMode::FewHigh => (a % 5) << 40,
            HMode::Shift4 => a << 4,
            HMode::Mix => {
                let mut z = a.wrapping_add(0x9e37_79b9_7f4a_7c15);
                z = (z ^ (z >> 30)).wrapping_mul(0xbf58_476d_1ce4_e5b9);
                z = (z ^ (z >> 27)).wrapping_mul(0x94d0_49bb_1331_11eb);
                z ^ (z >> 31)
            }
        }
    }
    fn to_u8(self) -> u8 {
        ALL_HMODES.iter().position(|m| *m == self).unwrap() as u8
    }
}

static DEFAULT_MODE: AtomicU8 = AtomicU8::new(0);
/// `HB::default()` (needed by `FromIterator` / `Deserialize`) uses this mode
pub fn set_default_hmode(m: HMode) {
    DEFAULT_MODE.store(m.to_u8(), Ordering::SeqCst)
}

#[derive(Clone, Copy, Debug)]
pub struct HB(pub HMode);
impl Default for HB {
    fn default() -> HB {
        HB(ALL_HMODES[DEFAULT_MODE.load(Ordering::SeqCst) as usize])
    }
}
pub struct HH {
    mode: HMode,
    acc: u64,
}
impl BuildHasher for HB {
    type Hasher = HH;
    fn build_hasher(&self) -> HH {
        HH {
            mode: self.0,
            acc: 0,
        }
    }
}
impl Hasher for HH {
    fn write(&mut self, bytes: &[u8]) {
        for b in bytes {
            self.acc = self.acc.wrapping_mul(257).wrapping_add(*b as u64);
        }
    }
    fn write_u32(&mut self, v: u32) {
        self.acc = v as u64;
    }
    fn write_u64(&mut self, v: u64) {
        self.acc = v;
    }
    fn finish(&self) -> u64 {
        self.mode.hash_tag(self.acc as u32)
    }
}

impl serde::Serialize for K {
    fn serialize<S: serde::Serializer>(&self, s: S) -> Result<S::Ok, S::Error> {
        self.alive("Serialize for the key type");
        s.serialize_u32(self.tag)
    }
}
impl serde::Serialize for V {
    fn serialize<S: serde::Serializer>(&self, s: S) -> Result<S::Ok, S::Error> {
        self.alive("Serialize for the value type");
        s.serialize_u64(self.payload)
    }
}

/// `x` rendered with Debug under a fixed list of format specifications (the options a caller can
/// pass must reach every element, as with the standard collections)
pub fn debug_renderings<T: std::fmt::Debug>(x: &T) -> Vec<String> {
    vec![
        format!("{:?}", x),
        format!("{:#?}", x),
        format!("{:x?}", x),
        format!("{:#X?}", x),
        format!("{:6?}", x),
        format!("{:<5?}", x),
        format!("{:+?}", x),
        format!("{:07?}", x),
        format!("{:.1?}", x),
        format!("{:#08x?}", x),
    ]
}
