//! E1: sequential model engine.  Interprets an operation list against a flurry map (or set) and a
//! `BTreeMap` reference model, comparing after every step.
use crate::inspect::{self, Shape};
use crate::model::*;
use crate::types::*;
use std::collections::BTreeMap;
use std::panic::{catch_unwind, AssertUnwindSafe};

pub type FMap = flurry::HashMap<K, V, HB>;
pub type FSet = flurry::HashSet<K, HB>;

#[derive(Clone, Copy, Debug, Default)]
pub struct Oracles {
    /// C02: return values and contents against the model
    pub returns: bool,
    /// C05: iteration / lookup / len agreement and structural well-formedness
    pub quiescent: bool,
    /// C04: drop ledger
    pub ledger: bool,
    /// C03: canaries of held references (+ quarantine when enabled by the caller)
    pub canary: bool,
    /// C14: table length policy
    pub capacity: bool,
    /// C06: comparison bound for lookups in crowded bins
    pub cmp_bound: bool,
    /// C10 (sequential part): growth happens, exactly doubling, when the threshold is crossed
    pub growth: bool,
}

#[derive(Clone, Debug)]
pub struct Fail {
    pub prop: &'static str,
    pub step: usize,
    pub msg: String,
}

#[derive(Clone, Debug, Default)]
pub struct Stats {
    pub steps: u64,
    pub resizes: u64,
    pub treeify: u64,
    pub untreeify: u64,
    pub tree_splits: u64,
    pub tree_clears: u64,
    pub tree_clones: u64,
    pub collects_with_transfer: u64,
    pub collects_with_tree: u64,
    pub max_table: usize,
    pub max_tree: usize,
    pub tree_removals_big: u64,
    pub removal_near_threshold: u64,
    pub reclaimed_before_teardown: u64,
    pub key_clones: u64,
    pub held_checked: u64,
    pub held_across_retire: u64,
    pub refused_try_inserts: u64,
}

#[derive(Clone, Copy, Debug, PartialEq, Eq)]
pub struct M {
    pub origin: u32,
    pub vid: u64,
    pub payload: u64,
}

enum Held {
    K(*const K, u32, u64),
    V(*const V, u64),
}

struct HG {
    g: seize::Guard<'static>,
    id: u64,
}
impl Drop for HG {
    fn drop(&mut self) {
        guard_died(self.id);
    }
}

/// a guard for one operation: either freshly created (released when dropped) or the long-lived one
enum OpGuard<'a> {
    Own(HG),
    Long(&'a HG),
}
impl OpGuard<'_> {
    fn g(&self) -> &seize::Guard<'static> {
        match self {
            OpGuard::Own(h) => &h.g,
            OpGuard::Long(h) => &h.g,
        }
    }
}

pub struct MapRun {
    pub cfg: Cfg,
    pub or: Oracles,
    long: Option<HG>,
    long_age: u32,
    map: Option<Box<FMap>>,
    pub model: BTreeMap<u32, M>,
    held: Vec<Held>,
    pub stats: Stats,
    step: usize,
    next_payload: u64,
    /// value id -> logical time of the invocation that displaced it
    displaced: BTreeMap<u64, u64>,
    retired_while_held: bool,
    /// logical time just after the guard of the current operation was created
    last_inv: u64,
    /// the current operation runs with `Guard::unprotected()`
    unprotected: bool,
}

fn panic_msg(e: Box<dyn std::any::Any + Send>) -> String {
    if let Some(s) = e.downcast_ref::<&str>() {
        s.to_string()
    } else if let Some(s) = e.downcast_ref::<String>() {
        s.clone()
    } else {
        "non-string panic payload".into()
    }
}

macro_rules! fail {
    ($prop:expr, $self:expr, $($arg:tt)*) => {
        return Err(Fail { prop: $prop, step: $self.step, msg: format!($($arg)*) })
    };
}

struct Hinted<I> {
    it: I,
    lo: usize,
}
impl<I: Iterator> Iterator for Hinted<I> {
    type Item = I::Item;
    fn next(&mut self) -> Option<I::Item> {
        let r = self.it.next();
        if r.is_some() && self.lo > 0 {
            self.lo -= 1;
        }
        r
    }
    fn size_hint(&self) -> (usize, Option<usize>) {
        (self.lo, None)
    }
}

fn new_map(cfg: &Cfg) -> Box<FMap> {
    let c = seize::Collector::new().batch_size(cfg.batch as usize);
    Box::new(FMap::with_capacity_and_hasher(cfg.capacity as usize, HB(cfg.hmode)).with_collector(c))
}

impl MapRun {
    pub fn new(cfg: Cfg, or: Oracles) -> MapRun {
        set_default_hmode(cfg.hmode);
        let map = new_map(&cfg);
        MapRun {
            cfg,
            or,
            long: None,
            long_age: 0,
            map: Some(map),
            model: BTreeMap::new(),
            held: Vec::new(),
            stats: Stats::default(),
            step: 0,
            next_payload: 1000,
            displaced: BTreeMap::new(),
            retired_while_held: false,
            last_inv: 0,
            unprotected: false,
        }
    }

    fn map(&self) -> &'static FMap {
        // the box is only replaced after every guard and reference has been released
        unsafe { &*(self.map.as_ref().unwrap().as_ref() as *const FMap) }
    }

    fn fresh_payload(&mut self) -> u64 {
        self.next_payload += 1;
        self.next_payload
    }

    fn new_hg(&self) -> HG {
        let g: seize::Guard<'static> = unsafe { std::mem::transmute(self.map().guard()) };
        let (id, _) = guard_born();
        HG { g, id }
    }

    /// release the long-lived guard (verifying everything obtained under it first)
    fn release_long(&mut self) -> Result<(), Fail> {
        self.verify_held()?;
        self.long = None;
        self.long_age = 0;
        Ok(())
    }

    fn verify_held(&mut self) -> Result<(), Fail> {
        let held = std::mem::take(&mut self.held);
        if self.or.canary {
            for h in &held {
                self.stats.held_checked += 1;
                match *h {
                    Held::K(p, tag, inst) => {
                        let k = unsafe { &*p };
                        if !(k.intact() && k.tag == tag && k.inst == inst) {
                            fail!("C03", self, "key reference (tag {}) obtained under a guard is dangling or changed before the guard was released", tag);
                        }
                    }
                    Held::V(p, id) => {
                        let v = unsafe { &*p };
                        if !(v.intact() && v.id == id) {
                            fail!("C03", self, "value reference (id {}) obtained under a guard is dangling or changed before the guard was released", id);
                        }
                    }
                }
            }
            if self.retired_while_held && !held.is_empty() {
                self.stats.held_across_retire += 1;
            }
        }
        self.retired_while_held = false;
        Ok(())
    }

    fn hold_k(&mut self, k: &K) -> (u32, u32) {
        self.held.push(Held::K(k as *const K, k.tag, k.inst));
        (k.tag, k.origin)
    }
    fn hold_v(&mut self, v: &V) -> (u64, u64) {
        self.held.push(Held::V(v as *const V, v.id));
        (v.id, v.payload)
    }

    /// run `f` with a guard according to the facade (`None` = use `pin()`)
    fn with_guard<R>(&mut self, f: impl FnOnce(&mut Self, Option<&seize::Guard<'static>>) -> Result<R, Fail>) -> Result<R, Fail> {
        if self.unprotected {
            // no guard of ours is alive (the caller released the long-lived one)
            let ug: seize::Guard<'static> = unsafe { seize::Guard::unprotected() };
            self.last_inv = tick();
            return f(self, Some(&ug));
        }
        match self.cfg.facade {
            Facade::Pin => {
                self.last_inv = tick();
                let r = f(self, None)?;
                Ok(r)
            }
            Facade::Long(n) => {
                if self.long.is_none() {
                    self.long = Some(self.new_hg());
                }
                let g: *const seize::Guard<'static> = &self.long.as_ref().unwrap().g;
                self.last_inv = tick();
                let r = f(self, Some(unsafe { &*g }))?;
                self.long_age += 1;
                if self.long_age >= n as u32 {
                    // refresh in place instead of dropping every other time
                    self.verify_held()?;
                    if self.long_age % 2 == 0 {
                        // a refreshed guard no longer protects what was read before: for the ledger
                        // it dies here and is born again after the refresh
                        let id = self.long.as_ref().unwrap().id;
                        guard_died(id);
                        self.long.as_mut().unwrap().g.refresh();
                        let (nid, _) = guard_born();
                        self.long.as_mut().unwrap().id = nid;
                        self.long_age = 0;
                    } else {
                        self.release_long()?;
                    }
                }
                Ok(r)
            }
            _ => {
                let hg = self.new_hg();
                let og = OpGuard::Own(hg);
                let gp: *const seize::Guard<'static> = og.g();
                self.last_inv = tick();
                let r = f(self, Some(unsafe { &*gp }));
                let v = self.verify_held();
                drop(og);
                let r = r?;
                v?;
                Ok(r)
            }
        }
    }

    fn displaced(&mut self, vid: u64, inv: u64) {
        self.displaced.insert(vid, inv);
        self.retired_while_held = true;
    }

    /* ---------------- single operations (each returns what the caller observed) ---------------- */

    fn op_insert(&mut self, tag: u32) -> Result<(), Fail> {
        let k = K::new(tag);
        let origin = k.origin;
        let p = self.fresh_payload();
        let v = V::new(p);
        let vid = v.id;
        let wg = self.cfg.facade == Facade::WithGuard;
        let got: Option<(u64, u64)> = self.with_guard(|s, g| {
            let m = s.map();
            Ok(match g {
                None => {
                    let r = m.pin();
                    let o = r.insert(k, v).map(|v| s.hold_v(v));
                    s.verify_held()?;
                    o
                }
                Some(g) if wg => m.with_guard(g).insert(k, v).map(|v| s.hold_v(v)),
                Some(g) => m.insert(k, v, g).map(|v| s.hold_v(v)),
            })
        })?;
        let want = self.model.get(&tag).map(|e| (e.vid, e.payload));
        if self.or.returns && got != want {
            fail!("C02", self, "insert({}) returned {:?}, model says {:?}", tag, got, want);
        }
        if let Some((old, _)) = want {
            { let inv = self.last_inv; self.displaced(old, inv) };
        }
        match self.model.get_mut(&tag) {
            Some(e) => {
                e.vid = vid;
                e.payload = p;
            }
            None => {
                self.model.insert(tag, M { origin, vid, payload: p });
            }
        }
        Ok(())
    }

    fn op_try_insert(&mut self, tag: u32) -> Result<(), Fail> {
        let k = K::new(tag);
        let origin = k.origin;
        let p = self.fresh_payload();
        let v = V::new(p);
        let vid = v.id;
        let wg = self.cfg.facade == Facade::WithGuard;
        // Ok(new id) | Err(current id, not_inserted id, not_inserted intact)
        let got: Result<u64, (u64, u64, bool)> = self.with_guard(|s, g| {
            let m = s.map();
            let conv = |s: &mut Self, r: Result<&V, flurry::TryInsertError<'_, V>>| match r {
                Ok(v) => Ok(s.hold_v(v).0),
                Err(e) => {
                    let cur = s.hold_v(e.current).0;
                    Err((cur, e.not_inserted.id, e.not_inserted.intact()))
                }
            };
            Ok(match g {
                None => {
                    let r = m.pin();
                    let o = conv(s, r.try_insert(k, v));
                    s.verify_held()?;
                    o
                }
                Some(g) if wg => conv(s, m.with_guard(g).try_insert(k, v)),
                Some(g) => conv(s, m.try_insert(k, v, g)),
            })
        })?;
        match self.model.get(&tag) {
            Some(e) => {
                self.stats.refused_try_inserts += 1;
                if self.or.returns {
                    match got {
                        Err((cur, ni, intact)) => {
                            if cur != e.vid || ni != vid || !intact {
                                fail!("C02", self, "try_insert({}) on a present key: current={} (model {}), not_inserted={} (passed {}), intact={}", tag, cur, e.vid, ni, vid, intact);
                            }
                        }
                        Ok(_) => fail!("C02", self, "try_insert({}) succeeded although the key is present", tag),
                    }
                }
            }
            None => {
                if self.or.returns && got != Ok(vid) {
                    fail!("C02", self, "try_insert({}) on an absent key returned {:?}", tag, got);
                }
                self.model.insert(tag, M { origin, vid, payload: p });
            }
        }
        Ok(())
    }

    fn op_get(&mut self, tag: u32, kind: u8) -> Result<(), Fail> {
        let k = K::probe(tag);
        let wg = self.cfg.facade == Facade::WithGuard;
        // (origin if asked, vid)
        let got: Option<(Option<u32>, u64)> = self.with_guard(|s, g| {
            let m = s.map();
            Ok(match (g, kind) {
                (None, 0) => {
                    let r = m.pin();
                    let o = r.get(&k).map(|v| (None, s.hold_v(v).0));
                    s.verify_held()?;
                    o
                }
                (None, 1) => {
                    let r = m.pin();
                    let o = r.get_key_value(&k).map(|(kk, v)| (Some(s.hold_k(kk).1), s.hold_v(v).0));
                    s.verify_held()?;
                    o
                }
                (None, _) => {
                    let r = m.pin();
                    if r.contains_key(&k) { Some((None, u64::MAX)) } else { None }
                }
                (Some(g), 0) if wg => m.with_guard(g).get(&k).map(|v| (None, s.hold_v(v).0)),
                (Some(g), 1) if wg => m.with_guard(g).get_key_value(&k).map(|(kk, v)| (Some(s.hold_k(kk).1), s.hold_v(v).0)),
                (Some(g), _) if wg => if m.with_guard(g).contains_key(&k) { Some((None, u64::MAX)) } else { None },
                (Some(g), 0) => m.get(&k, g).map(|v| (None, s.hold_v(v).0)),
                (Some(g), 1) => m.get_key_value(&k, g).map(|(kk, v)| (Some(s.hold_k(kk).1), s.hold_v(v).0)),
                (Some(g), _) => if m.contains_key(&k, g) { Some((None, u64::MAX)) } else { None },
            })
        })?;
        if self.or.returns {
            let want = self.model.get(&tag).map(|e| {
                (
                    if kind == 1 { Some(e.origin) } else { None },
                    if kind == 2 { u64::MAX } else { e.vid },
                )
            });
            if got != want {
                fail!("C02", self, "lookup kind {} of key {} returned {:?}, model says {:?}", kind, tag, got, want);
            }
        }
        Ok(())
    }

    fn op_remove(&mut self, tag: u32, entry: bool) -> Result<(), Fail> {
        let k = K::probe(tag);
        let wg = self.cfg.facade == Facade::WithGuard;
        let before_near = self.near_threshold();
        let got: Option<(Option<u32>, u64)> = self.with_guard(|s, g| {
            let m = s.map();
            Ok(match (g, entry) {
                (None, false) => {
                    let r = m.pin();
                    let o = r.remove(&k).map(|v| (None, s.hold_v(v).0));
                    s.verify_held()?;
                    o
                }
                (None, true) => {
                    let r = m.pin();
                    let o = r.remove_entry(&k).map(|(kk, v)| (Some(s.hold_k(kk).1), s.hold_v(v).0));
                    s.verify_held()?;
                    o
                }
                (Some(g), false) if wg => m.with_guard(g).remove(&k).map(|v| (None, s.hold_v(v).0)),
                (Some(g), true) if wg => m.with_guard(g).remove_entry(&k).map(|(kk, v)| (Some(s.hold_k(kk).1), s.hold_v(v).0)),
                (Some(g), false) => m.remove(&k, g).map(|v| (None, s.hold_v(v).0)),
                (Some(g), true) => m.remove_entry(&k, g).map(|(kk, v)| (Some(s.hold_k(kk).1), s.hold_v(v).0)),
            })
        })?;
        let want = self.model.remove(&tag);
        if self.or.returns {
            let w = want.map(|e| (if entry { Some(e.origin) } else { None }, e.vid));
            if got != w {
                fail!("C02", self, "remove{}({}) returned {:?}, model says {:?}", if entry { "_entry" } else { "" }, tag, got, w);
            }
        }
        if let Some(e) = want {
            { let inv = self.last_inv; self.displaced(e.vid, inv) };
            if before_near {
                self.stats.removal_near_threshold += 1;
            }
        }
        Ok(())
    }

    fn near_threshold(&self) -> bool {
        let d = unsafe { self.map().verif_dump() };
        d.table.is_some() && d.size_ctl > 0 && d.count + 2 >= d.size_ctl
    }

    fn op_compute(&mut self, tag: u32, act: Act) -> Result<(), Fail> {
        let k = K::probe(tag);
        let wg = self.cfg.facade == Facade::WithGuard;
        let before_near = self.near_threshold();
        let newp = self.fresh_payload();
        let calls = std::cell::Cell::new(0u32);
        let seen = std::cell::Cell::new(None::<(u32, u64, u64)>);
        let made = std::cell::Cell::new(None::<(u64, u64)>);
        let f = |kk: &K, v: &V| -> Option<V> {
            calls.set(calls.get() + 1);
            seen.set(Some((kk.origin, v.id, v.payload)));
            match act {
                Act::Inc => {
                    let nv = V::new(v.payload + 1);
                    made.set(Some((nv.id, nv.payload)));
                    Some(nv)
                }
                Act::Set => {
                    let nv = V::new(newp);
                    made.set(Some((nv.id, nv.payload)));
                    Some(nv)
                }
                Act::Remove => None,
            }
        };
        let got: Option<(u64, u64)> = self.with_guard(|s, g| {
            let m = s.map();
            Ok(match g {
                None => {
                    let r = m.pin();
                    let o = r.compute_if_present(&k, f).map(|v| s.hold_v(v));
                    s.verify_held()?;
                    o
                }
                Some(g) if wg => m.with_guard(g).compute_if_present(&k, f).map(|v| s.hold_v(v)),
                Some(g) => m.compute_if_present(&k, f, g).map(|v| s.hold_v(v)),
            })
        })?;
        let cur = self.model.get(&tag).copied();
        if self.or.returns {
            match cur {
                None => {
                    if calls.get() != 0 || got.is_some() {
                        fail!("C02", self, "compute_if_present({}) on an absent key: closure calls {}, returned {:?}", tag, calls.get(), got);
                    }
                }
                Some(e) => {
                    if calls.get() != 1 {
                        fail!("C02", self, "compute_if_present({}) on a present key invoked the closure {} times", tag, calls.get());
                    }
                    if seen.get() != Some((e.origin, e.vid, e.payload)) {
                        fail!("C02", self, "compute_if_present({}) closure saw {:?}, model holds {:?}", tag, seen.get(), e);
                    }
                    if got != made.get() {
                        fail!("C02", self, "compute_if_present({}) returned {:?} but the closure produced {:?}", tag, got, made.get());
                    }
                }
            }
        }
        if let Some(e) = cur {
            { let inv = self.last_inv; self.displaced(e.vid, inv) };
            match made.get() {
                Some((id, p)) => {
                    let me = self.model.get_mut(&tag).unwrap();
                    me.vid = id;
                    me.payload = p;
                }
                None => {
                    self.model.remove(&tag);
                    if before_near {
                        self.stats.removal_near_threshold += 1;
                    }
                }
            }
        }
        Ok(())
    }

    fn op_retain(&mut self, pred: Pred, force: bool) -> Result<(), Fail> {
        let wg = self.cfg.facade == Facade::WithGuard;
        let calls = std::cell::RefCell::new(Vec::<(u32, u32, u64, u64)>::new());
        let f = |k: &K, v: &V| -> bool {
            calls.borrow_mut().push((k.tag, k.origin, v.id, v.payload));
            pred.keep(k.tag, v.payload)
        };
        self.with_guard(|s, g| {
            let m = s.map();
            match (g, force) {
                (None, false) => m.pin().retain(f),
                (None, true) => m.pin().retain_force(f),
                (Some(g), false) if wg => m.with_guard(g).retain(f),
                (Some(g), true) if wg => m.with_guard(g).retain_force(f),
                (Some(g), false) => m.retain(f, g),
                (Some(g), true) => m.retain_force(f, g),
            }
            Ok(())
        })?;
        let mut c = calls.into_inner();
        c.sort();
        if self.or.returns {
            let want: Vec<_> = self.model.iter().map(|(t, e)| (*t, e.origin, e.vid, e.payload)).collect();
            if c != want {
                fail!("C02", self, "retain{} showed its predicate {:?}, the model holds {:?}", if force { "_force" } else { "" }, c, want);
            }
        }
        let gone: Vec<u64> = self.model.iter().filter(|(t, e)| !pred.keep(**t, e.payload)).map(|(_, e)| e.vid).collect();
        for v in gone {
            { let inv = self.last_inv; self.displaced(v, inv) };
        }
        self.model.retain(|t, e| pred.keep(*t, e.payload));
        Ok(())
    }

    fn op_clear(&mut self) -> Result<(), Fail> {
        let wg = self.cfg.facade == Facade::WithGuard;
        let had_tree = self.shape().tree_bins > 0;
        self.with_guard(|s, g| {
            let m = s.map();
            match g {
                None => m.pin().clear(),
                Some(g) if wg => m.with_guard(g).clear(),
                Some(g) => m.clear(g),
            }
            Ok(())
        })?;
        if had_tree {
            self.stats.tree_clears += 1;
        }
        let gone: Vec<u64> = self.model.values().map(|e| e.vid).collect();
        for v in gone {
            { let inv = self.last_inv; self.displaced(v, inv) };
        }
        self.model.clear();
        Ok(())
    }

    fn op_reserve(&mut self, n: usize) -> Result<(), Fail> {
        let wg = self.cfg.facade == Facade::WithGuard;
        self.with_guard(|s, g| {
            let m = s.map();
            match g {
                None => m.pin().reserve(n),
                Some(g) if wg => m.with_guard(g).reserve(n),
                Some(g) => m.reserve(n, g),
            }
            Ok(())
        })
    }

    fn make_items(&mut self, idxs: &[u16]) -> Vec<(K, V)> {
        idxs.iter()
            .map(|i| {
                let p = self.fresh_payload();
                (K::new(self.cfg.tag(*i)), V::new(p))
            })
            .collect()
    }

    fn apply_items_to(model: &mut BTreeMap<u32, M>, items: &[(K, V)], displaced: &mut Vec<u64>) {
        for (k, v) in items {
            match model.get_mut(&k.tag) {
                Some(e) => {
                    displaced.push(e.vid);
                    e.vid = v.id;
                    e.payload = v.payload;
                }
                None => {
                    model.insert(k.tag, M { origin: k.origin, vid: v.id, payload: v.payload });
                }
            }
        }
    }

    fn op_extend(&mut self, idxs: &[u16], hint: u8) -> Result<(), Fail> {
        self.release_long()?;
        let items = self.make_items(idxs);
        let inv = tick();
        let mut gone = Vec::new();
        Self::apply_items_to(&mut self.model, &items, &mut gone);
        for v in gone {
            self.displaced(v, inv);
        }
        let lo = items.len() * hint as usize / 255;
        let mut mref = self.map();
        mref.extend(Hinted { it: items.into_iter(), lo });
        Ok(())
    }

    fn op_collect(&mut self, idxs: &[u16], hint: u8) -> Result<(), Fail> {
        self.release_long()?;
        let items = self.make_items(idxs);
        let mut model = BTreeMap::new();
        let inv = tick();
        let mut gone = Vec::new();
        Self::apply_items_to(&mut model, &items, &mut gone);
        let lo = items.len() * hint as usize / 255;
        set_default_hmode(self.cfg.hmode);
        let newmap: FMap = Hinted { it: items.into_iter(), lo }.collect();
        // everything in the old map goes away with it
        let old: Vec<u64> = self.model.values().map(|e| e.vid).collect();
        for v in old.into_iter().chain(gone) {
            self.displaced(v, inv);
        }
        self.map = None;
        self.map = Some(Box::new(newmap));
        self.model = model;
        let sh = self.shape();
        if sh.table_len > 0 && idxs.len() > 1 {
            // the table a collect() starts from
            let start = ((lo.min(idxs.len().saturating_sub(1))) + 1) as usize;
            let start_len = (start + (start >> 1) + 1).next_power_of_two();
            if sh.table_len > start_len {
                self.stats.collects_with_transfer += 1;
            }
        }
        if sh.tree_bins > 0 {
            self.stats.collects_with_tree += 1;
        }
        Ok(())
    }

    fn op_clone_swap(&mut self) -> Result<(), Fail> {
        self.release_long()?;
        let had_tree = self.shape().tree_bins > 0;
        let c = self.map().clone();
        if self.or.returns {
            if !(c == *self.map()) || !(*self.map() == c) {
                fail!("C02", self, "a clone does not compare equal to its original");
            }
        }
        // read the clone's contents and compare with the model (payloads and key origins)
        let mut seen = BTreeMap::new();
        {
            let g = c.guard();
            for (k, v) in c.iter(&g) {
                if seen.insert(k.tag, M { origin: k.origin, vid: v.id, payload: v.payload }).is_some() {
                    fail!("C02", self, "clone yields key {} twice", k.tag);
                }
            }
        }
        if self.or.returns {
            let a: Vec<_> = seen.iter().map(|(t, e)| (*t, e.origin, e.payload)).collect();
            let b: Vec<_> = self.model.iter().map(|(t, e)| (*t, e.origin, e.payload)).collect();
            if a != b {
                fail!("C02", self, "clone holds {:?}, model {:?}", a, b);
            }
            for (t, e) in &seen {
                if self.model.get(t).map(|m| m.vid) == Some(e.vid) {
                    fail!("C02", self, "clone shares the value instance of key {} with its original", t);
                }
            }
        }
        if had_tree {
            self.stats.tree_clones += 1;
        }
        let inv = tick();
        let old: Vec<u64> = self.model.values().map(|e| e.vid).collect();
        for v in old {
            self.displaced(v, inv);
        }
        self.map = None;
        self.map = Some(Box::new(c));
        self.model = seen;
        Ok(())
    }

    fn op_eq(&mut self) -> Result<(), Fail> {
        self.release_long()?;
        if !self.or.returns {
            return Ok(());
        }
        // an independently built map with the same contents, other capacity / insertion order
        let other = FMap::with_capacity_and_hasher((self.step % 50) as usize, HB(self.cfg.hmode));
        {
            let g = other.guard();
            for (t, e) in self.model.iter().rev() {
                let mut v = V::new(e.payload);
                v.payload = e.payload;
                other.insert(K::new(*t), v, &g);
            }
        }
        let m = self.map();
        let eq1 = *m == other;
        let eq2 = other == *m;
        let (g1, g2) = (m.guard(), other.guard());
        let eq3 = m.with_guard(&g1) == other.with_guard(&g2);
        let eq4 = m.with_guard(&g1) == other;
        let eq5 = *m == other.with_guard(&g2);
        drop((g1, g2));
        if !(eq1 && eq2 && eq3 && eq4 && eq5) {
            fail!("C02", self, "map != an equal map: {:?}", (eq1, eq2, eq3, eq4, eq5));
        }
        // now make them differ
        let pick = self.step as u32;
        let differ = {
            let g = other.guard();
            if let Some((t, _)) = self.model.iter().nth(pick as usize % self.model.len().max(1)) {
                match pick % 3 {
                    0 => {
                        other.remove(&K::probe(*t), &g);
                    }
                    1 => {
                        other.insert(K::new(*t), V::new(u64::MAX - 7), &g);
                    }
                    _ => {
                        other.remove(&K::probe(*t), &g);
                        other.insert(K::new(1_000_000), V::new(1), &g);
                    }
                }
            } else {
                other.insert(K::new(1_000_000), V::new(1), &g);
            }
            true
        };
        if differ {
            let ne1 = *m == other;
            let ne2 = other == *m;
            let (g1, g2) = (m.guard(), other.guard());
            let ne3 = m.with_guard(&g1) == other.with_guard(&g2);
            drop((g1, g2));
            if ne1 || ne2 || ne3 {
                fail!("C02", self, "map == a different map: {:?}", (ne1, ne2, ne3));
            }
        }
        Ok(())
    }

    fn op_iterate(&mut self, which: u8) -> Result<(), Fail> {
        let wg = self.cfg.facade == Facade::WithGuard;
        let got: Vec<(u32, u32, u64)> = self.with_guard(|s, g| {
            let m = s.map();
            let mut out = Vec::new();
            match (g, which) {
                (None, 0) => {
                    let r = m.pin();
                    if s.step % 2 == 0 {
                        for (k, v) in r.iter() {
                            out.push((s.hold_k(k).0, k.origin, s.hold_v(v).0));
                        }
                    } else {
                        for (k, v) in &r {
                            out.push((s.hold_k(k).0, k.origin, s.hold_v(v).0));
                        }
                    }
                    s.verify_held()?;
                }
                (None, 1) => {
                    let r = m.pin();
                    for k in r.keys() {
                        out.push((s.hold_k(k).0, k.origin, 0));
                    }
                    s.verify_held()?;
                }
                (None, _) => {
                    let r = m.pin();
                    for v in r.values() {
                        out.push((0, 0, s.hold_v(v).0));
                    }
                    s.verify_held()?;
                }
                (Some(g), 0) if wg => {
                    for (k, v) in m.with_guard(g).iter() {
                        out.push((s.hold_k(k).0, k.origin, s.hold_v(v).0));
                    }
                }
                (Some(g), 1) if wg => {
                    for k in m.with_guard(g).keys() {
                        out.push((s.hold_k(k).0, k.origin, 0));
                    }
                }
                (Some(g), _) if wg => {
                    for v in m.with_guard(g).values() {
                        out.push((0, 0, s.hold_v(v).0));
                    }
                }
                (Some(g), 0) => {
                    for (k, v) in m.iter(g) {
                        out.push((s.hold_k(k).0, k.origin, s.hold_v(v).0));
                    }
                }
                (Some(g), 1) => {
                    for k in m.keys(g) {
                        out.push((s.hold_k(k).0, k.origin, 0));
                    }
                }
                (Some(g), _) => {
                    for v in m.values(g) {
                        out.push((0, 0, s.hold_v(v).0));
                    }
                }
            }
            Ok(out)
        })?;
        if self.or.returns {
            let mut got = got;
            got.sort();
            let mut want: Vec<(u32, u32, u64)> = self
                .model
                .iter()
                .map(|(t, e)| match which {
                    0 => (*t, e.origin, e.vid),
                    1 => (*t, e.origin, 0),
                    _ => (0, 0, e.vid),
                })
                .collect();
            want.sort();
            if got != want {
                fail!("C02", self, "iteration kind {} yielded {:?}, model holds {:?}", which, got, want);
            }
        }
        Ok(())
    }

    fn op_index(&mut self, tag: u32) -> Result<(), Fail> {
        self.release_long()?;
        let k = K::probe(tag);
        let m = self.map();
        let r = catch_unwind(AssertUnwindSafe(|| {
            let p = m.pin();
            let v = &p[&k];
            (v.id, v.intact())
        }));
        if self.or.returns {
            match (r, self.model.get(&tag)) {
                (Ok((id, ok)), Some(e)) => {
                    if id != e.vid || !ok {
                        fail!("C02", self, "map[{}] gave value {}, model {}", tag, id, e.vid);
                    }
                }
                (Err(_), None) => {}
                (Ok(_), None) => fail!("C02", self, "map[{}] did not panic on a missing key", tag),
                (Err(e), Some(_)) => fail!("C02", self, "map[{}] panicked on a present key: {}", tag, panic_msg(e)),
            }
        }
        Ok(())
    }

    fn op_debug(&mut self) -> Result<(), Fail> {
        self.release_long()?;
        if !self.or.returns {
            return Ok(());
        }
        let m = self.map();
        let s1 = format!("{:?}", m);
        let g = m.guard();
        let s2 = format!("{:?}", m.with_guard(&g));
        let mut dm = String::new();
        {
            use std::fmt::Write;
            struct D<'a>(&'a FMap, &'a seize::Guard<'a>);
            impl std::fmt::Debug for D<'_> {
                fn fmt(&self, f: &mut std::fmt::Formatter<'_>) -> std::fmt::Result {
                    f.debug_map().entries(self.0.iter(self.1)).finish()
                }
            }
            write!(dm, "{:?}", D(m, &g)).unwrap();
        }
        if s1 != dm || s2 != dm {
            fail!("C02", self, "Debug output {:?} / {:?} differs from the debug-map rendering of the iteration {:?}", s1, s2, dm);
        }
        {
            // every format specification reaches the entries, through each facade
            struct D<'a>(&'a FMap, &'a seize::Guard<'a>);
            impl std::fmt::Debug for D<'_> {
                fn fmt(&self, f: &mut std::fmt::Formatter<'_>) -> std::fmt::Result {
                    f.debug_map().entries(self.0.iter(self.1)).finish()
                }
            }
            let want = debug_renderings(&D(m, &g));
            for (facade, got) in [("HashMap", debug_renderings(m)), ("with_guard()", debug_renderings(&m.with_guard(&g))), ("pin()", debug_renderings(&m.pin()))] {
                if let Some(i) = (0..want.len()).find(|i| got[*i] != want[*i]) {
                    fail!("C02", self, "Debug of {} under format specification #{} prints {:?}, the debug-map rendering of its iteration under the same specification is {:?}", facade, i, got[i], want[i]);
                }
            }
        }
        let entries = if s1 == "{}" { 0 } else { s1.matches(": ").count() };
        if entries != self.model.len() {
            fail!("C02", self, "Debug output shows {} entries, model holds {}", entries, self.model.len());
        }
        Ok(())
    }

    /* ---------------- step driver ---------------- */

    pub fn shape(&self) -> Shape {
        inspect::shape(&unsafe { self.map().verif_dump() })
    }

    fn bin_len_for(&self, sh: &Shape, tag: u32) -> usize {
        if sh.table_len == 0 {
            return 0;
        }
        let b = (self.cfg.hmode.hash_tag(tag) & (sh.table_len as u64 - 1)) as usize;
        sh.bins.get(&b).map_or(0, |x| x.1)
    }

    fn run_one(&mut self, op: &Op) -> Result<(), Fail> {
        match op {
            Op::Insert(i) => self.op_insert(self.cfg.tag(*i)),
            Op::TryInsert(i) => self.op_try_insert(self.cfg.tag(*i)),
            Op::Get(i) => self.op_get(self.cfg.tag(*i), 0),
            Op::GetKV(i) => self.op_get(self.cfg.tag(*i), 1),
            Op::Contains(i) => self.op_get(self.cfg.tag(*i), 2),
            Op::Remove(i) => self.op_remove(self.cfg.tag(*i), false),
            Op::RemoveEntry(i) => self.op_remove(self.cfg.tag(*i), true),
            Op::Compute(i, a) => self.op_compute(self.cfg.tag(*i), *a),
            Op::Retain(p) => self.op_retain(*p, false),
            Op::RetainForce(p) => self.op_retain(*p, true),
            Op::Clear => self.op_clear(),
            Op::ClearUnprotected => {
                self.release_long()?;
                self.unprotected = true;
                let r = self.op_clear();
                self.unprotected = false;
                r
            }
            Op::RetainUnprotected(p, force) => {
                self.release_long()?;
                self.unprotected = true;
                let r = self.op_retain(*p, *force);
                self.unprotected = false;
                r
            }
            Op::Reserve(n) => self.op_reserve(*n as usize),
            Op::Extend(items, h) => self.op_extend(items, *h),
            Op::Collect(items, h) => self.op_collect(items, *h),
            Op::CloneSwap => self.op_clone_swap(),
            Op::EqCheck => self.op_eq(),
            Op::Iterate(w) => self.op_iterate(*w),
            Op::Index(i) => self.op_index(self.cfg.tag(*i)),
            Op::Debug => self.op_debug(),
            Op::Relations(_) => Ok(()),
            Op::Fill(..) | Op::Drain(..) => unreachable!(),
        }
    }

    /// one primitive step: operation, then every enabled oracle
    fn step(&mut self, op: &Op) -> Result<(), Fail> {
        self.step += 1;
        self.stats.steps += 1;
        let before = self.shape();
        let before_len = self.model.len();
        let ins_tag = match op {
            Op::Insert(i) | Op::TryInsert(i) => Some(self.cfg.tag(*i)),
            _ => None,
        };
        let was_present = ins_tag.map(|t| self.model.contains_key(&t));
        let bin_before = ins_tag.map(|t| self.bin_len_for(&before, t)).unwrap_or(0);
        let r = catch_unwind(AssertUnwindSafe(|| self.run_one(op)));
        match r {
            Ok(r) => r?,
            Err(e) => {
                return Err(Fail {
                    prop: "ANY",
                    step: self.step,
                    msg: format!("operation {:?} panicked: {}", op, panic_msg(e)),
                })
            }
        }
        let after = self.shape();
        self.track(op, &before, &after);
        if self.or.capacity {
            self.check_capacity(op, &before, &after, before_len, was_present, bin_before)?;
        }
        if self.or.growth {
            self.check_growth(op, &before, &after, was_present)?;
        }
        self.post_check(&after)
    }

    fn track(&mut self, op: &Op, b: &Shape, a: &Shape) {
        let same_map = !matches!(op, Op::Collect(..) | Op::CloneSwap);
        self.stats.max_table = self.stats.max_table.max(a.table_len);
        self.stats.max_tree = self.stats.max_tree.max(a.max_tree);
        if !same_map {
            return;
        }
        if b.table_len != 0 && a.table_len > b.table_len {
            self.stats.resizes += 1;
            if b.tree_bins > 0 {
                self.stats.tree_splits += 1;
            }
        } else if a.table_len == b.table_len {
            for (i, (t, _)) in &a.bins {
                if *t && b.bins.get(i).map_or(false, |x| !x.0) {
                    self.stats.treeify += 1;
                }
            }
            for (i, (t, n)) in &b.bins {
                if *t && a.bins.get(i).map_or(*n > 1 && !matches!(op, Op::Clear), |x| !x.0) {
                    self.stats.untreeify += 1;
                }
                if *t && *n >= 16 && matches!(op, Op::Remove(_) | Op::RemoveEntry(_) | Op::Compute(_, Act::Remove)) && a.bins.get(i).map_or(false, |x| x.1 + 1 == *n) {
                    self.stats.tree_removals_big += 1;
                }
            }
        }
    }

    fn check_capacity(&mut self, op: &Op, b: &Shape, a: &Shape, before_len: usize, was_present: Option<bool>, bin_before: usize) -> Result<(), Fail> {
        if matches!(op, Op::Collect(..) | Op::CloneSwap) {
            return Ok(());
        }
        let (n, n2) = (b.table_len, a.table_len);
        if n2 < n {
            fail!("C14", self, "{:?} shrank the table from {} to {} bins", op, n, n2);
        }
        if n2 != 0 && (!n2.is_power_of_two() || n2 > (1 << 30)) {
            fail!("C14", self, "table length {} is not a power of two <= 2^30", n2);
        }
        if n == 0 || n2 == n {
            return Ok(());
        }
        if n2 % n != 0 || !(n2 / n).is_power_of_two() {
            fail!("C14", self, "{:?} changed the table length from {} to {}", op, n, n2);
        }
        match op {
            Op::Reserve(_) | Op::Extend(..) => Ok(()),
            Op::Insert(_) | Op::TryInsert(_) => {
                // an insert that walks past 8 nodes of a list bin in a table shorter than 64 grows
                // the table instead of treeifying the bin, whether it appends or replaces
                let overfull = bin_before >= 8 && n < 64;
                if overfull {
                    return Ok(());
                }
                if was_present == Some(true) {
                    fail!("C14", self, "{:?} of a present key grew the table from {} to {} (its bin held {} nodes)", op, n, n2, bin_before);
                }
                let count_after = before_len as isize + 1;
                let threshold = (n - (n >> 2)) as isize;
                if count_after >= threshold {
                    Ok(())
                } else {
                    fail!("C14", self, "{:?} grew the table from {} to {} with {} entries (threshold {}) and a bin of {} nodes", op, n, n2, count_after, threshold, bin_before)
                }
            }
            _ => fail!("C14", self, "{:?} (not an insertion or reservation) grew the table from {} to {} bins", op, n, n2),
        }
    }

    fn check_growth(&mut self, op: &Op, b: &Shape, a: &Shape, was_present: Option<bool>) -> Result<(), Fail> {
        if let (Op::Insert(_) | Op::TryInsert(_), Some(false)) = (op, was_present) {
            let n = b.table_len;
            if n == 0 || n >= (1 << 30) {
                return Ok(());
            }
            let count_after = self.model.len() as isize;
            let threshold = (n - (n >> 2)) as isize;
            if count_after >= threshold && a.table_len == n {
                fail!("C10", self, "the entry count reached {} (threshold {} of a {}-bin table) but the table was not replaced", count_after, threshold, n);
            }
            if a.table_len != n {
                let want_sc = (a.table_len - (a.table_len >> 2)) as isize;
                if a.size_ctl != want_sc {
                    fail!("C10", self, "after growing to {} bins the next threshold is {} instead of {}", a.table_len, a.size_ctl, want_sc);
                }
            }
        }
        Ok(())
    }

    fn post_check(&mut self, sh: &Shape) -> Result<(), Fail> {
        let m = self.map();
        if self.or.returns || self.or.quiescent {
            let l = m.len();
            if l != self.model.len() || m.is_empty() != self.model.is_empty() {
                fail!(if self.or.returns { "C02" } else { "C05" }, self, "len() = {}, is_empty() = {}, model holds {}", l, m.is_empty(), self.model.len());
            }
        }
        let full = sh.table_len <= 512 || self.step % 16 == 0;
        if self.or.returns && full {
            let g = m.guard();
            for t in self.cfg.all_tags() {
                let got = m.get(&K::probe(t), &g).map(|v| v.id);
                let want = self.model.get(&t).map(|e| e.vid);
                if got != want {
                    fail!("C02", self, "get({}) = {:?} after the step, model says {:?}", t, got, want);
                }
            }
        }
        if self.or.quiescent && full {
            let g = m.guard();
            let mut it: Vec<(u32, u64)> = Vec::new();
            for (k, v) in m.iter(&g) {
                it.push((k.tag, v.id));
            }
            let nk = m.keys(&g).count();
            let nv = m.values(&g).count();
            it.sort();
            for w in it.windows(2) {
                if w[0].0 == w[1].0 {
                    fail!("C05", self, "iteration yields key {} twice", w[0].0);
                }
            }
            let mut looked: Vec<(u32, u64)> = Vec::new();
            for t in self.cfg.all_tags() {
                if let Some(v) = m.get(&K::probe(t), &g) {
                    looked.push((t, v.id));
                }
            }
            looked.sort();
            looked.dedup();
            // iteration may contain keys outside the universe only if they are in the model
            let it_in: Vec<(u32, u64)> = it.clone();
            if it_in != looked {
                fail!("C05", self, "iteration yields {:?} but lookups succeed for {:?}", it_in, looked);
            }
            if m.len() != it.len() || nk != it.len() || nv != it.len() {
                fail!("C05", self, "len() = {}, iter = {}, keys = {}, values = {}", m.len(), it.len(), nk, nv);
            }
            drop(g);
            let d = unsafe { m.verif_dump() };
            if let Err(e) = inspect::check_quiescent(&d, self.cfg.hmode) {
                fail!("C05", self, "{}", e);
            }
            match inspect::contents(&d, |v: &V| v.id) {
                Ok(c) => {
                    let c: Vec<(u32, u64)> = c.iter().map(|(t, e)| (*t, e.1)).collect();
                    if c != it {
                        fail!("C05", self, "the table holds {:?} but iteration yields {:?}", c, it);
                    }
                }
                Err(e) => fail!("C05", self, "{}", e),
            }
        }
        if self.or.cmp_bound && sh.table_len >= 64 {
            let g = m.guard();
            for t in self.cfg.all_tags() {
                let n = self.bin_len_for(sh, t);
                if n < 8 {
                    continue;
                }
                let k = K::probe(t);
                let c0 = cmps();
                let _ = m.get(&k, &g);
                let c = cmps() - c0;
                let bound = (4.0 * ((n + 1) as f64).log2()).ceil() as u64 + 2;
                if c > bound {
                    fail!("C06", self, "get({}) in a bin of {} colliding keys (table {}) cost {} key comparisons, bound {}", t, n, sh.table_len, c, bound);
                }
            }
        }
        Ok(())
    }

    pub fn run(&mut self, ops: &[Op]) -> Result<(), Fail> {
        for op in ops {
            match op {
                Op::Fill(from, n) => {
                    for j in 0..*n {
                        self.step(&Op::Insert(from.wrapping_add(j)))?;
                    }
                }
                Op::Drain(from, n) => {
                    for j in 0..*n {
                        self.step(&Op::Remove(from.wrapping_add(j)))?;
                    }
                }
                _ => self.step(op)?,
            }
        }
        Ok(())
    }

    /// drop everything and run the teardown oracles (ledger)
    pub fn finish(mut self) -> Result<Stats, Fail> {
        self.release_long()?;
        if self.or.ledger {
            let snap = ledger_snapshot();
            self.stats.reclaimed_before_teardown = snap.iter().filter(|i| !i.is_key && i.drops > 0 && self.displaced.contains_key(&i.ident)).count() as u64;
            self.stats.key_clones = snap.iter().filter(|i| i.is_key && i.cloned).count() as u64;
            // nothing that is still stored may have been dropped
            for e in self.model.values() {
                if let Some(i) = snap.iter().find(|i| !i.is_key && i.ident == e.vid) {
                    if i.drops != 0 {
                        fail!("C04", self, "value {} is still stored but has been dropped", e.vid);
                    }
                }
            }
        }
        let r = catch_unwind(AssertUnwindSafe(|| {
            self.map = None;
        }));
        if let Err(e) = r {
            return Err(Fail { prop: "ANY", step: self.step, msg: format!("dropping the map panicked: {}", panic_msg(e)) });
        }
        if self.or.ledger {
            let snap = ledger_snapshot();
            for i in &snap {
                if i.drops != 1 {
                    fail!(
                        "C04",
                        self,
                        "{} instance ({} {}, origin {}, {}) was dropped {} times",
                        if i.is_key { "key" } else { "value" },
                        if i.is_key { "tag" } else { "id" },
                        i.ident,
                        i.origin,
                        if i.cloned { "cloned by the map" } else { "created by the caller" },
                        i.drops
                    );
                }
                if !i.is_key {
                    if let Some(inv) = self.displaced.get(&i.ident) {
                        if i.min_live_guard_at_drop < *inv {
                            fail!("C04", self, "value {} was dropped while a guard created before its displacement was still alive", i.ident);
                        }
                    }
                }
            }
        }
        Ok(self.stats)
    }
}

/// run one sequential map case with the given oracles
pub fn run_map_case(case: &SeqCase, or: Oracles) -> Result<Stats, Fail> {
    ledger_reset();
    let _ = take_dead_touch();
    let mut r = MapRun::new(case.cfg.clone(), or);
    let res = r.run(&case.ops);
    if res.is_ok() {
        if let Some(m) = take_dead_touch() {
            let step = r.step;
            let _ = catch_unwind(AssertUnwindSafe(move || drop(r)));
            return Err(Fail { prop: "C03", step, msg: m });
        }
    }
    match res {
        Ok(()) => r.finish(),
        Err(f) => {
            // tear down quietly; the first failure is what counts
            let _ = catch_unwind(AssertUnwindSafe(move || drop(r)));
            Err(f)
        }
    }
}

/* ------------------------------- C18: panic injection ------------------------------- */

#[derive(Clone, Debug, PartialEq, Eq, serde::Serialize, serde::Deserialize)]
pub enum FaultOp {
    Compute(u16, Act),
    Retain(Pred),
    RetainForce(Pred),
    /// consume iter (0) / keys (1) / values (2) in a loop that panics
    IterLoop(u8),
}

pub struct Injected(pub u64);

#[derive(Debug, Default, Clone)]
pub struct FaultOutcome {
    /// callbacks that ran before the injected one (= the fault index if the panic fired)
    pub callbacks: usize,
    pub fired: bool,
    pub in_critical_section: bool,
    pub removals_before_panic: usize,
    pub tree_bin: bool,
}

impl MapRun {
    /// run `fop` with a panic injected at its `at`-th callback invocation and check the aftermath
    pub fn fault_op(&mut self, fop: &FaultOp, at: usize) -> Result<FaultOutcome, Fail> {
        self.release_long()?;
        self.step += 1;
        let m = self.map();
        let mut oc = FaultOutcome::default();
        let n = std::cell::Cell::new(0usize);
        let seen = std::cell::RefCell::new(Vec::<(u32, u64, u64)>::new());
        let sh = self.shape();
        let use_pin = matches!(self.cfg.facade, Facade::Pin);
        let g = m.guard();
        let r = catch_unwind(AssertUnwindSafe(|| match fop {
            FaultOp::Compute(i, act) => {
                let tag = self.cfg.tag(*i);
                let k = K::probe(tag);
                let f = |kk: &K, v: &V| -> Option<V> {
                    seen.borrow_mut().push((kk.tag, v.id, v.payload));
                    if n.get() == at {
                        std::panic::panic_any(Injected(777));
                    }
                    n.set(n.get() + 1);
                    match act {
                        Act::Inc => Some(V::new(v.payload + 1)),
                        Act::Set => Some(V::new(5)),
                        Act::Remove => None,
                    }
                };
                if use_pin {
                    m.pin().compute_if_present(&k, f).map(|v| (v.id, v.payload))
                } else {
                    m.compute_if_present(&k, f, &g).map(|v| (v.id, v.payload))
                }
            }
            FaultOp::Retain(p) | FaultOp::RetainForce(p) => {
                let f = |kk: &K, v: &V| -> bool {
                    seen.borrow_mut().push((kk.tag, v.id, v.payload));
                    if n.get() == at {
                        std::panic::panic_any(Injected(777));
                    }
                    n.set(n.get() + 1);
                    p.keep(kk.tag, v.payload)
                };
                match (use_pin, matches!(fop, FaultOp::RetainForce(_))) {
                    (true, false) => m.pin().retain(f),
                    (true, true) => m.pin().retain_force(f),
                    (false, false) => m.retain(f, &g),
                    (false, true) => m.retain_force(f, &g),
                }
                None
            }
            FaultOp::IterLoop(kind) => {
                let body = |tag: u32, id: u64, p: u64| {
                    seen.borrow_mut().push((tag, id, p));
                    if n.get() == at {
                        std::panic::panic_any(Injected(777));
                    }
                    n.set(n.get() + 1);
                };
                match kind {
                    0 => {
                        for (k, v) in m.iter(&g) {
                            body(k.tag, v.id, v.payload)
                        }
                    }
                    1 => {
                        for k in m.keys(&g) {
                            body(k.tag, 0, 0)
                        }
                    }
                    _ => {
                        for v in m.values(&g) {
                            body(0, v.id, v.payload)
                        }
                    }
                }
                None
            }
        }));
        drop(g);
        let seen = seen.into_inner();
        oc.callbacks = n.get();
        match &r {
            Err(e) => {
                match e.downcast_ref::<Injected>() {
                    Some(Injected(777)) => oc.fired = true,
                    _ => fail!("C18", self, "{:?} with a panic injected at callback {}: a different panic came out: {}", fop, at, panic_msg_ref(e)),
                }
                if seen.len() != at + 1 {
                    fail!("C18", self, "{:?}: the injected panic propagated but {} callbacks were recorded for fault index {}", fop, seen.len(), at);
                }
            }
            Ok(_) => {
                if seen.len() > at {
                    fail!("C18", self, "{:?}: the panic injected at callback {} did not propagate to the caller", fop, at);
                }
            }
        }
        // model: the callbacks completed before the panic took effect, the faulting one did not
        match fop {
            FaultOp::Compute(i, act) => {
                let tag = self.cfg.tag(*i);
                oc.in_critical_section = oc.fired;
                if let Some(e) = self.model.get(&tag).copied() {
                    if seen.first().map(|s| (s.0, s.1)) != Some((tag, e.vid)) {
                        fail!("C18", self, "compute_if_present({}) showed its closure {:?}, the model holds value {}", tag, seen.first(), e.vid);
                    }
                    if !oc.fired {
                        match (act, &r) {
                            (Act::Remove, _) => {
                                self.model.remove(&tag);
                            }
                            (_, Ok(Some((id, p)))) => {
                                let me = self.model.get_mut(&tag).unwrap();
                                me.vid = *id;
                                me.payload = *p;
                            }
                            _ => fail!("C18", self, "compute_if_present({}) on a present key returned nothing", tag),
                        }
                    }
                } else if !seen.is_empty() {
                    fail!("C18", self, "compute_if_present({}) invoked its closure although the key is absent", tag);
                }
                let b = (self.cfg.hmode.hash_tag(tag) & (sh.table_len.max(1) as u64 - 1)) as usize;
                oc.tree_bin = sh.bins.get(&b).map_or(false, |x| x.0);
            }
            FaultOp::Retain(p) | FaultOp::RetainForce(p) => {
                let done = if oc.fired { at } else { seen.len() };
                for (tag, vid, payload) in seen.iter().take(done) {
                    match self.model.get(tag) {
                        Some(e) if e.vid == *vid => {}
                        other => fail!("C18", self, "retain showed ({}, value {}) to its predicate, the model holds {:?}", tag, vid, other),
                    }
                    if !p.keep(*tag, *payload) {
                        self.model.remove(tag);
                        oc.removals_before_panic += 1;
                    }
                }
                oc.tree_bin = sh.tree_bins > 0;
            }
            FaultOp::IterLoop(_) => {}
        }
        // aftermath: structure consistent, nothing locked, contents = model
        let d = unsafe { m.verif_dump() };
        if let Err(e) = inspect::check_quiescent(&d, self.cfg.hmode) {
            fail!("C18", self, "after the panic in {:?} (callback {}): {}", fop, at, e);
        }
        match inspect::contents(&d, |v: &V| v.id) {
            Ok(c) => {
                let got: Vec<(u32, u64)> = c.iter().map(|(t, e)| (*t, e.1)).collect();
                let want: Vec<(u32, u64)> = self.model.iter().map(|(t, e)| (*t, e.vid)).collect();
                if got != want {
                    fail!("C18", self, "after the panic in {:?} (callback {}) the map holds {:?}, expected {:?} (callbacks completed before the panic applied, the faulting entry unchanged)", fop, at, got, want);
                }
            }
            Err(e) => fail!("C18", self, "{}", e),
        }
        // later writes to the affected bin(s) complete, from this and from another thread
        let probe_tags: Vec<u32> = match fop {
            FaultOp::Compute(i, _) => vec![self.cfg.tag(*i)],
            _ => seen.iter().rev().take(2).map(|s| s.0).filter(|t| *t != 0 || self.cfg.tag(0) == 0).collect(),
        };
        for tag in probe_tags {
            let p1 = self.fresh_payload();
            let (k, v) = (K::new(tag), V::new(p1));
            let (origin, vid) = (k.origin, v.id);
            let mm: &'static FMap = m;
            let h = std::thread::spawn(move || {
                let g = mm.guard();
                mm.insert(k, v, &g).map(|v| v.id)
            });
            let got = match h.join() {
                Ok(g) => g,
                Err(_) => fail!("C18", self, "an insert from another thread into the bin of key {} panicked after the injected panic", tag),
            };
            let want = self.model.get(&tag).map(|e| e.vid);
            if got != want {
                fail!("C18", self, "after the panic, insert({}) from another thread returned {:?}, expected {:?}", tag, got, want);
            }
            match self.model.get_mut(&tag) {
                Some(e) => {
                    e.vid = vid;
                    e.payload = p1;
                }
                None => {
                    self.model.insert(tag, M { origin, vid, payload: p1 });
                }
            }
            let mut full = self.or;
            full.returns = true;
            let saved = self.or;
            self.or = full;
            let r = self.op_remove(tag, false);
            self.or = saved;
            r?;
        }
        let sh2 = self.shape();
        let saved = self.or;
        self.or.returns = true;
        self.or.quiescent = true;
        let r = self.post_check(&sh2);
        self.or = saved;
        r?;
        Ok(oc)
    }
}

fn panic_msg_ref(e: &Box<dyn std::any::Any + Send>) -> String {
    if let Some(s) = e.downcast_ref::<&str>() {
        s.to_string()
    } else if let Some(s) = e.downcast_ref::<String>() {
        s.clone()
    } else {
        "non-string panic payload".into()
    }
}

#[derive(Clone, Debug, serde::Serialize, serde::Deserialize)]
pub struct FaultCase {
    pub cfg: Cfg,
    pub prefix: Vec<Op>,
    pub fault: FaultOp,
    pub tail: Vec<Op>,
    /// Some(i): only this fault index (replay files); None: every index
    pub only: Option<usize>,
}

#[derive(Debug, Default, Clone)]
pub struct FaultStats {
    pub runs: u64,
    pub fired: u64,
    pub in_critical_section: u64,
    pub after_removals: u64,
    pub tree: u64,
}

/// all fault indices of one case; Err carries the failing index
pub fn run_fault_case(c: &FaultCase) -> Result<FaultStats, (usize, Fail)> {
    let or = Oracles { returns: true, ..Default::default() };
    let mut st = FaultStats::default();
    let mut at = c.only.unwrap_or(0);
    loop {
        ledger_reset();
        let mut r = MapRun::new(c.cfg.clone(), or);
        let res = (|| -> Result<FaultOutcome, Fail> {
            r.run(&c.prefix)?;
            let oc = r.fault_op(&c.fault, at)?;
            r.run(&c.tail)?;
            Ok(oc)
        })();
        let oc = match res {
            Ok(oc) => {
                if let Err(f) = r.finish() {
                    return Err((at, f));
                }
                oc
            }
            Err(f) => {
                let _ = catch_unwind(AssertUnwindSafe(move || drop(r)));
                return Err((at, f));
            }
        };
        st.runs += 1;
        if oc.fired {
            st.fired += 1;
            st.in_critical_section += oc.in_critical_section as u64;
            st.after_removals += (oc.removals_before_panic > 0) as u64;
            st.tree += oc.tree_bin as u64;
        }
        if !oc.fired || c.only.is_some() {
            // index `at` is beyond the last callback of the fault-free run: every index was covered
            return Ok(st);
        }
        at += 1;
        if at > 5000 {
            return Ok(st);
        }
    }
}
