//! E2: serialising scheduler.  Real OS threads run small programs against a shared flurry map, but
//! exactly one of them holds the token at any time; every hook call of flurry (`--cfg flurry_verif`)
//! is a step at which the token may move.  An execution is a pure function of (program, schedule).
use flurry::verif as fv;
use std::cell::{Cell, UnsafeCell};
use std::panic::{catch_unwind, AssertUnwindSafe};
use std::sync::atomic::{AtomicBool, AtomicU8, AtomicUsize, Ordering};
use std::sync::mpsc::{channel, Receiver, Sender};
use std::sync::{Arc, Mutex};
use std::thread::Thread;

/// upper bound on the threads of one execution (array sizes); a pool has `DEFAULT_WORKERS` worker
/// threads unless it is made with `Pool::with_workers`
pub const MAXT: usize = 160;
pub const DEFAULT_WORKERS: usize = 8;
const PROBE: usize = usize::MAX - 1;
const NOBODY: usize = usize::MAX;

const ST_RUNNABLE: u8 = 1;
const ST_BLOCKED: u8 = 2;
const ST_PARKED: u8 = 3;
const ST_FINISHED: u8 = 4;

#[derive(Clone, Copy, Debug, PartialEq, Eq, serde::Serialize)]
pub enum Kind {
    Load,
    Store,
    Rmw,
    Cas,
    Lock,
    Park,
    Spin,
    OpStart,
    OpEnd,
}

#[derive(Clone, Copy, Debug)]
pub struct TraceEnt {
    pub step: u64,
    pub thread: u8,
    pub kind: Kind,
    pub addr: usize,
    pub after_unlock: bool,
}

#[derive(Clone, Debug)]
pub enum Verdict {
    Deadlock(String),
    StepBudget { thread: usize, steps: u64 },
    Panic { thread: usize, msg: String },
    Probe(String),
}

/// everything the monitors (E5, site-event oracles) get to see; delivered by the token holder
#[derive(Clone, Copy, Debug)]
pub enum Ev {
    Atomic { thread: usize, step: u64, addr: usize, kind: u8, ord: Ordering, ord_fail: Ordering },
    Locked { thread: usize, addr: usize },
    Unlocking { thread: usize, addr: usize },
    Site { thread: usize, step: u64, kind: u8, a: usize, b: usize },
    User { thread: usize, step: u64, tag: u32, a: u64, b: u64 },
}

pub type Sink = Box<dyn FnMut(&Ev) + Send>;

#[derive(Clone)]
pub enum ProbeSel {
    None,
    /// every step of the given thread(s) (bitmask), optionally only every k-th, at most `max`
    /// probe rounds per execution (long executions would otherwise cost steps x probe length)
    Steps { threads: u32, every: u64, max: u64, from: u64 },
    /// exactly these global steps
    At(Vec<u64>),
}

pub struct ProbeCtx<'a> {
    pub step: u64,
    pub thread: usize,
    pub kind: Kind,
    sched: &'a Sched,
}
impl ProbeCtx<'_> {
    /// run `f` as an isolated reader: returns Err if it tried to lock / park / spin or exceeded `budget` steps
    pub fn isolated<R>(&self, budget: u64, f: impl FnOnce() -> R) -> Result<(R, u64), String> {
        PROBE_STEPS.with(|c| c.set(0));
        PROBE_BUDGET.with(|c| c.set(budget));
        PROBE_FAULT.with(|c| c.set(0));
        let r = catch_unwind(AssertUnwindSafe(f));
        let steps = PROBE_STEPS.with(|c| c.get());
        let fault = PROBE_FAULT.with(|c| c.get());
        PROBE_BUDGET.with(|c| c.set(u64::MAX));
        let fault_msg = |fault: u8| match fault {
            1 => "the reader tried to acquire a bin lock".to_string(),
            2 => "the reader parked (waits for another thread)".to_string(),
            3 => "the reader entered a spin-wait".to_string(),
            _ => format!("the reader did not finish within {} of its own steps while every other thread was suspended", budget),
        };
        match r {
            Ok(v) => {
                if fault == 0 {
                    Ok((v, steps))
                } else {
                    Err(fault_msg(fault))
                }
            }
            Err(e) => {
                if fault != 0 {
                    Err(fault_msg(fault))
                } else if e.is::<AbortCase>() {
                    std::panic::resume_unwind(e)
                } else {
                    Err(format!("the reader panicked: {}", panic_msg(&e)))
                }
            }
        }
    }
    pub fn emit_user(&self, tag: u32, a: u64, b: u64) {
        self.sched.sink_ev(&Ev::User { thread: PROBE, step: self.step, tag, a, b });
    }
}

pub fn panic_msg(e: &Box<dyn std::any::Any + Send>) -> String {
    if let Some(s) = e.downcast_ref::<&str>() {
        s.to_string()
    } else if let Some(s) = e.downcast_ref::<String>() {
        s.clone()
    } else {
        "non-string panic payload".into()
    }
}

pub type ProbeFn = Arc<dyn Fn(&ProbeCtx<'_>) -> Result<(), String> + Send + Sync>;

struct Inner {
    step: u64,
    switches: Vec<(u64, u8)>,
    next_switch: usize,
    performed: Vec<(u64, u8)>,
    trace: Vec<TraceEnt>,
    record_trace: bool,
    op_steps: [u64; MAXT],
    /// thread-relative preemptions: (thread, steps into its current operation, target), each used once
    relative: Vec<(u8, u64, u8, bool)>,
    after_unlock: bool,
    rng: u64,
    random_gap: u32,
    next_random: u64,
    probe_sel: ProbeSel,
    probe_idx: usize,
    probes_run: u64,
    sink: Option<Sink>,
    blocked_seen: bool,
    parked_seen: bool,
    spin_seen: bool,
    probe_return: usize,
    probe_info: (u64, usize, Kind),
}

pub struct Sched {
    n: usize,
    cur: AtomicUsize,
    state: [AtomicU8; MAXT],
    blocked_on: [AtomicUsize; MAXT],
    tokens: [AtomicBool; MAXT],
    handles: Vec<Thread>,
    probe_handle: Option<Thread>,
    abort: AtomicBool,
    probe_exit: AtomicBool,
    verdict: Mutex<Option<Verdict>>,
    inner: UnsafeCell<Inner>,
    step_budget: u64,
}
unsafe impl Sync for Sched {}
unsafe impl Send for Sched {}

/// private panic payload used to unwind workers of an aborted case
pub struct AbortCase;

thread_local! {
    static TL: Cell<(*const Sched, usize)> = const { Cell::new((std::ptr::null(), 0)) };
    static PROBE_STEPS: Cell<u64> = const { Cell::new(0) };
    static PROBE_BUDGET: Cell<u64> = const { Cell::new(u64::MAX) };
    static PROBE_FAULT: Cell<u8> = const { Cell::new(0) };
}

fn tl() -> Option<(&'static Sched, usize)> {
    let (p, me) = TL.with(|c| c.get());
    if p.is_null() {
        None
    } else {
        Some((unsafe { &*p }, me))
    }
}

fn next_rand(s: &mut u64) -> u64 {
    *s = s.wrapping_add(0x9e37_79b9_7f4a_7c15);
    let mut z = *s;
    z = (z ^ (z >> 30)).wrapping_mul(0xbf58_476d_1ce4_e5b9);
    z = (z ^ (z >> 27)).wrapping_mul(0x94d0_49bb_1331_11eb);
    z ^ (z >> 31)
}

impl Sched {
    #[allow(clippy::mut_from_ref)]
    fn inner(&self) -> &mut Inner {
        // only the token holder calls this
        unsafe { &mut *self.inner.get() }
    }

    fn sink_ev(&self, ev: &Ev) {
        if let Some(s) = self.inner().sink.as_mut() {
            s(ev)
        }
    }

    fn set_verdict(&self, v: Verdict) {
        let mut g = self.verdict.lock().unwrap_or_else(|p| p.into_inner());
        if g.is_none() {
            *g = Some(v);
        }
    }

    fn enabled(&self, t: usize) -> bool {
        match self.state[t].load(Ordering::SeqCst) {
            ST_RUNNABLE => true,
            ST_BLOCKED => {
                let a = self.blocked_on[t].load(Ordering::SeqCst);
                // the mutex lives in a node the blocked thread protects with its guard
                !unsafe { &*(a as *const parking_lot::Mutex<()>) }.is_locked()
            }
            ST_PARKED => self.tokens[t].load(Ordering::SeqCst),
            _ => false,
        }
    }

    fn next_enabled_after(&self, me: usize) -> Option<usize> {
        for d in 1..=self.n {
            let t = (me + d) % self.n;
            if t != me && self.enabled(t) {
                return Some(t);
            }
        }
        None
    }

    fn handoff(&self, to: usize) {
        self.cur.store(to, Ordering::SeqCst);
        if to == PROBE {
            if let Some(h) = &self.probe_handle {
                h.unpark()
            }
        } else {
            self.handles[to].unpark();
        }
    }

    fn abort_all(&self) {
        self.abort.store(true, Ordering::SeqCst);
        self.cur.store(NOBODY, Ordering::SeqCst);
        for h in &self.handles {
            h.unpark();
        }
        if let Some(h) = &self.probe_handle {
            h.unpark()
        }
    }

    fn wait_for_token(&self, me: usize) {
        loop {
            if self.abort.load(Ordering::SeqCst) {
                if std::thread::panicking() {
                    return;
                }
                std::panic::panic_any(AbortCase);
            }
            if self.cur.load(Ordering::SeqCst) == me {
                return;
            }
            std::thread::park();
        }
    }

    fn deadlock(&self, why: String) -> ! {
        let mut desc = why;
        for t in 0..self.n {
            let st = self.state[t].load(Ordering::SeqCst);
            desc.push_str(&format!(
                "; T{}: {}",
                t,
                match st {
                    ST_RUNNABLE => "runnable",
                    ST_BLOCKED => "blocked on a bin lock",
                    ST_PARKED => "parked (waiting for tree-bin readers)",
                    ST_FINISHED => "finished",
                    _ => "?",
                }
            ));
        }
        self.set_verdict(Verdict::Deadlock(desc));
        self.abort_all();
        std::panic::panic_any(AbortCase);
    }

    /// give the token to somebody else because `me` cannot continue right now
    fn yield_blocked(&self, me: usize, what: &str) {
        match self.next_enabled_after(me) {
            Some(t) => {
                self.handoff(t);
                self.wait_for_token(me);
            }
            None => self.deadlock(format!("no thread can make progress: T{} {}", me, what)),
        }
    }

    fn step_common(&self, me: usize, kind: Kind, addr: usize) -> u64 {
        if std::thread::panicking() {
            return 0;
        }
        if self.abort.load(Ordering::SeqCst) {
            std::panic::panic_any(AbortCase);
        }
        debug_assert_eq!(self.cur.load(Ordering::SeqCst), me, "hook called without the token");
        let inn = self.inner();
        let step = inn.step;
        inn.step += 1;
        let au = inn.after_unlock;
        inn.after_unlock = false;
        if inn.record_trace {
            inn.trace.push(TraceEnt { step, thread: me as u8, kind, addr, after_unlock: au });
        }
        match kind {
            Kind::OpStart => inn.op_steps[me] = 0,
            _ => {
                inn.op_steps[me] += 1;
                if inn.op_steps[me] > self.step_budget {
                    self.set_verdict(Verdict::StepBudget { thread: me, steps: inn.op_steps[me] });
                    self.abort_all();
                    std::panic::panic_any(AbortCase);
                }
            }
        }
        // probe?
        let do_probe = match &inn.probe_sel {
            ProbeSel::None => false,
            ProbeSel::Steps { threads, every, max, from } => (threads >> me) & 1 == 1 && step >= *from && step % (*every).max(1) == 0 && inn.probes_run < *max,
            ProbeSel::At(v) => {
                while inn.probe_idx < v.len() && v[inn.probe_idx] < step {
                    inn.probe_idx += 1;
                }
                inn.probe_idx < v.len() && v[inn.probe_idx] == step
            }
        };
        if do_probe && self.probe_handle.is_some() {
            inn.probe_return = me;
            inn.probe_info = (step, me, kind);
            inn.probes_run += 1;
            self.handoff(PROBE);
            self.wait_for_token(me);
        }
        // scheduled preemption?
        let inn = self.inner();
        let mut target = None;
        while inn.next_switch < inn.switches.len() && inn.switches[inn.next_switch].0 < step {
            inn.next_switch += 1;
        }
        if inn.next_switch < inn.switches.len() && inn.switches[inn.next_switch].0 == step {
            target = Some(inn.switches[inn.next_switch].1 as usize);
            inn.next_switch += 1;
        } else if let Some(r) = {
            let os = inn.op_steps[me];
            inn.relative.iter_mut().find(|r| !r.3 && r.0 as usize == me && r.1 == os)
        } {
            r.3 = true;
            target = Some(r.2 as usize);
        } else if inn.random_gap > 0 && step >= inn.next_random {
            let gap = 1 + next_rand(&mut inn.rng) % (2 * inn.random_gap as u64);
            inn.next_random = step + gap;
            let cands: Vec<usize> = (0..self.n).filter(|t| *t != me && self.enabled(*t)).collect();
            if !cands.is_empty() {
                target = Some(cands[(next_rand(&mut inn.rng) % cands.len() as u64) as usize]);
            }
        }
        if let Some(t) = target {
            if t != me && t < self.n && self.enabled(t) {
                inn.performed.push((step, t as u8));
                self.handoff(t);
                self.wait_for_token(me);
            }
        }
        step
    }

    fn before_lock(&self, me: usize, addr: usize) {
        self.step_common(me, Kind::Lock, addr);
        if std::thread::panicking() {
            return;
        }
        loop {
            if !unsafe { &*(addr as *const parking_lot::Mutex<()>) }.is_locked() {
                return;
            }
            self.inner().blocked_seen = true;
            self.blocked_on[me].store(addr, Ordering::SeqCst);
            self.state[me].store(ST_BLOCKED, Ordering::SeqCst);
            self.yield_blocked(me, "waits for a bin lock");
            self.state[me].store(ST_RUNNABLE, Ordering::SeqCst);
        }
    }

    fn park(&self, me: usize) {
        self.step_common(me, Kind::Park, 0);
        if std::thread::panicking() {
            return;
        }
        if self.tokens[me].swap(false, Ordering::SeqCst) {
            return;
        }
        self.inner().parked_seen = true;
        self.state[me].store(ST_PARKED, Ordering::SeqCst);
        self.yield_blocked(me, "is parked and nobody is left to unpark it");
        self.state[me].store(ST_RUNNABLE, Ordering::SeqCst);
        self.tokens[me].store(false, Ordering::SeqCst);
    }

    fn spin(&self, me: usize) {
        self.step_common(me, Kind::Spin, 0);
        if std::thread::panicking() {
            return;
        }
        self.inner().spin_seen = true;
        // a spinner lets everybody else run first
        if let Some(t) = self.next_enabled_after(me) {
            self.handoff(t);
            self.wait_for_token(me);
        }
    }

    fn unpark(&self, th: &Thread) {
        for (i, h) in self.handles.iter().enumerate().take(self.n) {
            if h.id() == th.id() {
                self.tokens[i].store(true, Ordering::SeqCst);
            }
        }
    }

    fn finish(&self, me: usize) {
        self.state[me].store(ST_FINISHED, Ordering::SeqCst);
        if self.abort.load(Ordering::SeqCst) {
            return;
        }
        if let Some(t) = self.next_enabled_after(me) {
            self.handoff(t);
            return;
        }
        let unfinished: Vec<usize> = (0..self.n).filter(|t| self.state[*t].load(Ordering::SeqCst) != ST_FINISHED).collect();
        if unfinished.is_empty() {
            self.cur.store(NOBODY, Ordering::SeqCst);
            return;
        }
        // somebody is blocked or parked and nobody can run: deadlock
        let mut desc = format!("after T{} finished nobody can run", me);
        for t in &unfinished {
            desc.push_str(&format!("; T{} is {}", t, if self.state[*t].load(Ordering::SeqCst) == ST_PARKED { "parked and never unparked (lost wake-up)" } else { "blocked on a bin lock that is never released" }));
        }
        self.set_verdict(Verdict::Deadlock(desc));
        self.abort_all();
    }
}

/* ------------------------------- hook table ------------------------------- */

fn probe_step() {
    let s = PROBE_STEPS.with(|c| {
        c.set(c.get() + 1);
        c.get()
    });
    if s > PROBE_BUDGET.with(|c| c.get()) && !std::thread::panicking() {
        PROBE_FAULT.with(|c| c.set(4));
        std::panic::panic_any("probe budget");
    }
}
fn probe_fault(code: u8) {
    if !std::thread::panicking() {
        PROBE_FAULT.with(|c| c.set(code));
        std::panic::panic_any("probe fault");
    }
}

fn h_atomic(addr: usize, kind: u8, ord: Ordering, ord_fail: Ordering) {
    if let Some((s, me)) = tl() {
        if me == PROBE {
            let step = s.inner().step;
            s.sink_ev(&Ev::Atomic { thread: PROBE, step, addr, kind, ord, ord_fail });
            probe_step();
            return;
        }
        let k = match kind {
            fv::LOAD => Kind::Load,
            fv::STORE => Kind::Store,
            fv::RMW => Kind::Rmw,
            _ => Kind::Cas,
        };
        let step = s.step_common(me, k, addr);
        if !std::thread::panicking() {
            s.sink_ev(&Ev::Atomic { thread: me, step, addr, kind, ord, ord_fail });
        }
    }
}
fn h_before_lock(addr: usize, _is_locked: &dyn Fn() -> bool) {
    if let Some((s, me)) = tl() {
        if me == PROBE {
            probe_fault(1);
            return;
        }
        s.before_lock(me, addr);
    }
}
fn h_locked(addr: usize) {
    if let Some((s, me)) = tl() {
        if !std::thread::panicking() && !s.abort.load(Ordering::SeqCst) {
            s.sink_ev(&Ev::Locked { thread: me, addr });
        }
    }
}
fn h_unlocking(addr: usize) {
    if let Some((s, me)) = tl() {
        if !std::thread::panicking() && !s.abort.load(Ordering::SeqCst) {
            s.inner().after_unlock = true;
            s.sink_ev(&Ev::Unlocking { thread: me, addr });
        }
    }
}
fn h_spin() {
    if let Some((s, me)) = tl() {
        if me == PROBE {
            probe_fault(3);
            return;
        }
        s.spin(me);
    }
}
fn h_park() -> bool {
    if let Some((s, me)) = tl() {
        if me == PROBE {
            probe_fault(2);
            return true;
        }
        s.park(me);
        true
    } else {
        false
    }
}
fn h_unpark(t: &Thread) {
    if let Some((s, _)) = tl() {
        s.unpark(t);
    }
}
fn h_event(kind: u8, a: usize, b: usize) {
    if let Some((s, me)) = tl() {
        if !std::thread::panicking() && !s.abort.load(Ordering::SeqCst) {
            let step = s.inner().step;
            s.sink_ev(&Ev::Site { thread: me, step, kind, a, b });
        }
    } else {
        PLAIN_EVENT.with(|c| {
            if let Some(f) = c.borrow_mut().as_mut() {
                f(kind, a, b)
            }
        });
    }
}

thread_local! {
    /// event sink for unscheduled threads (used by the sequential C09 check)
    pub static PLAIN_EVENT: std::cell::RefCell<Option<Box<dyn FnMut(u8, usize, usize)>>> = const { std::cell::RefCell::new(None) };
}

static HOOKS: fv::Hooks = fv::Hooks {
    atomic: h_atomic,
    before_lock: h_before_lock,
    locked: h_locked,
    unlocking: h_unlocking,
    spin: h_spin,
    park: h_park,
    unpark: h_unpark,
    event: h_event,
};

pub fn install_hooks() {
    fv::install(&HOOKS);
}

/// user event from code that has no `Wk` at hand (e.g. `Clone for K` running inside flurry)
pub fn emit_user(tag: u32, a: u64, b: u64) {
    if let Some((s, me)) = tl() {
        if !std::thread::panicking() && !s.abort.load(Ordering::SeqCst) && (s.cur.load(Ordering::SeqCst) == me) {
            let step = s.inner().step;
            s.sink_ev(&Ev::User { thread: me, step, tag, a, b });
        }
    }
}

/* ------------------------------- worker side API ------------------------------- */

pub struct Wk<'a> {
    sched: &'a Sched,
    pub me: usize,
}
impl Wk<'_> {
    /// operation boundary; returns the stamp (global step number)
    pub fn op_start(&self) -> u64 {
        self.sched.step_common(self.me, Kind::OpStart, 0)
    }
    pub fn op_end(&self) -> u64 {
        self.sched.step_common(self.me, Kind::OpEnd, 0)
    }
    pub fn now(&self) -> u64 {
        self.sched.inner().step
    }
    pub fn user(&self, tag: u32, a: u64, b: u64) {
        let step = self.sched.inner().step;
        self.sched.sink_ev(&Ev::User { thread: self.me, step, tag, a, b });
    }
}

/* ------------------------------- pool and runner ------------------------------- */

type Job = Box<dyn FnOnce() + Send>;

pub struct Pool {
    txs: Vec<Sender<Job>>,
    handles: Vec<Thread>,
    probe_tx: Sender<Job>,
    probe_handle: Thread,
    ack_rx: Receiver<usize>,
    ack_tx: Sender<usize>,
}

fn spawn_worker(name: String) -> (Sender<Job>, Thread) {
    let (tx, rx) = channel::<Job>();
    let (htx, hrx) = channel();
    std::thread::Builder::new()
        .name(name)
        .stack_size(8 << 20)
        .spawn(move || {
            htx.send(std::thread::current()).unwrap();
            while let Ok(job) = rx.recv() {
                job();
            }
        })
        .expect("spawn worker");
    (tx, hrx.recv().unwrap())
}

impl Pool {
    pub fn new() -> Pool {
        Pool::with_workers(DEFAULT_WORKERS)
    }
    pub fn workers(&self) -> usize {
        self.txs.len()
    }
    pub fn with_workers(n: usize) -> Pool {
        assert!(n >= 1 && n <= MAXT);
        install_hooks();
        let mut txs = Vec::new();
        let mut handles = Vec::new();
        for i in 0..n {
            let (tx, h) = spawn_worker(format!("fvh-w{}", i));
            txs.push(tx);
            handles.push(h);
        }
        let (probe_tx, probe_handle) = spawn_worker("fvh-probe".into());
        let (ack_tx, ack_rx) = channel();
        Pool { txs, handles, probe_tx, probe_handle, ack_rx, ack_tx }
    }
}

pub struct RunSpec {
    pub switches: Vec<(u64, u8)>,
    /// thread-relative preemptions: when `thread` has performed `n` steps of its current operation,
    /// switch to `target` (each entry fires once; what was performed is reported as absolute switches)
    pub relative: Vec<(u8, u64, u8)>,
    /// (seed, mean gap between random preemptions); None = no random preemptions
    pub random: Option<(u64, u32)>,
    pub record_trace: bool,
    pub probe: Option<(ProbeSel, ProbeFn)>,
    pub step_budget: u64,
    pub first: usize,
    pub sink: Option<Sink>,
}
impl Default for RunSpec {
    fn default() -> Self {
        RunSpec { switches: vec![], relative: vec![], random: None, record_trace: false, probe: None, step_budget: 2_000_000, first: 0, sink: None }
    }
}

pub struct RunOut {
    pub verdict: Option<Verdict>,
    pub trace: Vec<TraceEnt>,
    pub performed: Vec<(u64, u8)>,
    pub steps: u64,
    pub blocked: bool,
    pub parked: bool,
    pub spun: bool,
    pub probes: u64,
    pub sink: Option<Sink>,
}

pub type Body = Box<dyn FnOnce(&Wk<'_>) + Send>;

pub fn run(pool: &Pool, spec: RunSpec, bodies: Vec<Body>) -> RunOut {
    let n = bodies.len();
    assert!(n >= 1 && n <= pool.txs.len(), "{} threads on a pool of {} workers", n, pool.txs.len());
    let (probe_sel, probe_fn) = match spec.probe {
        Some((s, f)) => (s, Some(f)),
        None => (ProbeSel::None, None),
    };
    let sched = Arc::new(Sched {
        n,
        cur: AtomicUsize::new(NOBODY),
        state: std::array::from_fn(|i| AtomicU8::new(if i < n { ST_RUNNABLE } else { ST_FINISHED })),
        blocked_on: std::array::from_fn(|_| AtomicUsize::new(0)),
        tokens: std::array::from_fn(|_| AtomicBool::new(false)),
        handles: pool.handles.clone(),
        probe_handle: if probe_fn.is_some() { Some(pool.probe_handle.clone()) } else { None },
        abort: AtomicBool::new(false),
        probe_exit: AtomicBool::new(false),
        verdict: Mutex::new(None),
        inner: UnsafeCell::new(Inner {
            step: 0,
            switches: spec.switches,
            relative: spec.relative.into_iter().map(|(a, b, c)| (a, b, c, false)).collect(),
            next_switch: 0,
            performed: Vec::new(),
            trace: Vec::new(),
            record_trace: spec.record_trace,
            op_steps: [0; MAXT],
            after_unlock: false,
            rng: spec.random.map_or(0, |r| r.0),
            random_gap: spec.random.map_or(0, |r| r.1),
            next_random: spec.random.map_or(u64::MAX, |r| r.0 % (2 * r.1.max(1) as u64)),
            probe_sel,
            probe_idx: 0,
            probes_run: 0,
            sink: spec.sink,
            blocked_seen: false,
            parked_seen: false,
            spin_seen: false,
            probe_return: 0,
            probe_info: (0, 0, Kind::Load),
        }),
        step_budget: spec.step_budget,
    });
    for (i, body) in bodies.into_iter().enumerate() {
        let s = sched.clone();
        let ack = pool.ack_tx.clone();
        pool.txs[i]
            .send(Box::new(move || {
                TL.with(|c| c.set((Arc::as_ptr(&s), i)));
                let r = catch_unwind(AssertUnwindSafe(|| {
                    s.wait_for_token(i);
                    let wk = Wk { sched: &s, me: i };
                    body(&wk);
                }));
                if let Err(e) = r {
                    if !e.is::<AbortCase>() {
                        s.set_verdict(Verdict::Panic { thread: i, msg: panic_msg(&e) });
                        if !s.abort.load(Ordering::SeqCst) {
                            s.state[i].store(ST_FINISHED, Ordering::SeqCst);
                            s.abort_all();
                        }
                    }
                }
                s.finish(i);
                TL.with(|c| c.set((std::ptr::null(), 0)));
                let _ = ack.send(i);
            }))
            .unwrap();
    }
    if let Some(f) = probe_fn.clone() {
        let s = sched.clone();
        let ack = pool.ack_tx.clone();
        pool.probe_tx
            .send(Box::new(move || {
                TL.with(|c| c.set((Arc::as_ptr(&s), PROBE)));
                loop {
                    if s.probe_exit.load(Ordering::SeqCst) || s.abort.load(Ordering::SeqCst) {
                        break;
                    }
                    if s.cur.load(Ordering::SeqCst) != PROBE {
                        std::thread::park();
                        continue;
                    }
                    let (step, thread, kind) = s.inner().probe_info;
                    let ctx = ProbeCtx { step, thread, kind, sched: &s };
                    let r = catch_unwind(AssertUnwindSafe(|| f(&ctx)));
                    let back = s.inner().probe_return;
                    match r {
                        Ok(Ok(())) => s.handoff(back),
                        Ok(Err(m)) => {
                            s.set_verdict(Verdict::Probe(format!("probe at step {} (T{} suspended before a {:?}): {}", step, thread, kind, m)));
                            s.abort_all();
                            break;
                        }
                        Err(e) => {
                            if !e.is::<AbortCase>() {
                                s.set_verdict(Verdict::Probe(format!("probe at step {} (T{} suspended before a {:?}) panicked: {}", step, thread, kind, panic_msg(&e))));
                            }
                            s.abort_all();
                            break;
                        }
                    }
                }
                TL.with(|c| c.set((std::ptr::null(), 0)));
                let _ = ack.send(PROBE);
            }))
            .unwrap();
    }
    // go
    let first = if spec.first < n { spec.first } else { 0 };
    sched.handoff(first);
    let mut acks = 0;
    let mut probe_acked = false;
    while acks < n {
        match pool.ack_rx.recv() {
            Ok(i) if i != PROBE => acks += 1,
            Ok(_) => probe_acked = true,
            Err(_) => break,
        }
    }
    if probe_fn.is_some() {
        sched.probe_exit.store(true, Ordering::SeqCst);
        while !probe_acked {
            pool.probe_handle.unpark();
            match pool.ack_rx.recv_timeout(std::time::Duration::from_millis(20)) {
                Ok(i) if i == PROBE => probe_acked = true,
                _ => {}
            }
        }
    }
    let verdict = sched.verdict.lock().unwrap_or_else(|p| p.into_inner()).take();
    let inn = sched.inner();
    RunOut {
        verdict,
        trace: std::mem::take(&mut inn.trace),
        performed: std::mem::take(&mut inn.performed),
        steps: inn.step,
        blocked: inn.blocked_seen,
        parked: inn.parked_seen,
        spun: inn.spin_seen,
        probes: inn.probes_run,
        sink: inn.sink.take(),
    }
}
